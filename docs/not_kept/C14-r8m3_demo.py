import os, sys; sys.path.insert(0, os.getcwd())
import json
from nutree import Node, Tree


class Item:  # plain object, hashed by identity
    def __init__(self, name):
        self.name = name

    def __repr__(self):
        return f"Item<{self.name}>"


class KeepIdNode(Node):
    """Node class (see `Tree(factory=...)`) that always stores its data_id in
    the dict form, so clones of identity-hashed objects can be restored."""

    def to_dict(self, *, mapper=None):
        res = super().to_dict(mapper=mapper)
        res["data_id"] = self.data_id
        return res


def ser(node, data):
    data["name"] = node.data.name


def deser(parent, data):
    return Item(data["name"])


tree = Tree(factory=KeepIdNode)
shared = Item("shared")
a = tree.add(Item("A"))
a1 = a.add(Item("a1"))
a1.add(shared)
b = tree.add(Item("B"))
b.add(shared)  # clone
tree.add(shared)  # clone at toplevel
assert all(type(n) is KeepIdNode for n in tree)

dl = tree.to_dict_list(mapper=ser)

def walk(lst):
    for d in lst:
        yield d
        yield from walk(d.get("children", ()))

# one dict per node, each one produced by the node's own to_dict()
entries = list(walk(dl))
assert len(entries) == tree.count
missing = [d["name"] for d in entries if "data_id" not in d]
assert not missing, f"dicts not produced by KeepIdNode.to_dict(): {missing}"

tree_2 = Tree.from_dict(json.loads(json.dumps(dl)), mapper=deser)
assert [(n.depth(), n.data.name) for n in tree_2] == [
    (n.depth(), n.data.name) for n in tree
]
assert [n.data_id for n in tree_2] == [n.data_id for n in tree]
shared_id = tree.find(shared).data_id
assert len(tree_2.find_all(data_id=shared_id)) == 3, "clone group lost"
print("OK")
