"""C17 / m1: a DOT export that is requested, but only consumed after the tree
was modified, must still describe *one* state of the tree (node.to_dot()
returns a lazy line iterator)."""
import os
import re
import sys

sys.path.insert(0, os.getcwd())  # run with cwd = source tree root

from nutree import Tree  # noqa: E402


def parse(lines):
    nodes, edges = {}, []
    for line in lines:
        line = line.strip()
        m = re.match(r"^(-?\w+) -> (-?\w+)", line)
        if m:
            edges.append((m.group(1), m.group(2)))
            continue
        m = re.match(r'^(-?\w+)(?: \[(.*)\])?$', line)
        if m and line not in ("}",):
            nodes[m.group(1)] = m.group(2)
    return nodes, edges


for unique_nodes in (True, False):
    tree = Tree("t")
    a = tree.add("A")
    a1 = a.add("a1")
    a2 = a.add("a2")
    b = tree.add("B")

    def key(n, unique_nodes=unique_nodes):
        return str(n.data_id if unique_nodes else n.node_id)

    # Request the export of branch 'A' ...
    lines = a.to_dot(add_self=True, unique_nodes=unique_nodes)
    state_1 = {(key(a), key(a1)), (key(a), key(a2))}
    # ... the tree is modified before the iterator is consumed:
    a1.move_to(b)
    state_2 = {(key(a), key(a2))}

    nodes, edges = parse(list(lines))

    # Every edge must connect two graph nodes that are part of the export
    for p, c in edges:
        assert p in nodes and c in nodes, f"dangling edge {p} -> {c}: {nodes}"
    # The edges are those of the branch (when requested or when consumed)
    assert len(edges) == len(set(edges))
    assert set(edges) in (state_1, state_2), (edges, state_1, state_2)
    assert set(nodes) == {key(a)} | {c for _p, c in edges}, (nodes, edges)

print("OK")
