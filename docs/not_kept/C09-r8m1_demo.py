import os, sys; sys.path.insert(0, os.getcwd())  # noqa: E401, E702

from nutree import Tree

# A branch with more than ten children; the searched data object occurs (as
# clones) below child #2, child #3 and child #10, and as last child (#11).
tree = Tree("demo")
top = tree.add("top")
kids = [top.add(f"c{i}") for i in range(11)]
kids[10].add("x")  # created first, lives far to the right
kids[2].add("x")
kids[3].add("mid").add("x")
top.add("x")  # child #11


def ref(start, data, add_self=False):
    """Independent reference: filter the pre-order traversal."""
    data_id = start.tree.calc_data_id(data)
    return [n for n in start.iterator(add_self=add_self) if n.data_id == data_id]


expect = ref(top, "x")
assert [n.path for n in expect] == [
    "/top/c2/x",
    "/top/c3/mid/x",
    "/top/c10/x",
    "/top/x",
], expect

got = top.find_all("x")
assert len(got) == 4 and all(a is b for a, b in zip(got, expect)), [
    n.path for n in got
]

got = top.find_all(data_id=expect[0].data_id, add_self=True)
assert all(a is b for a, b in zip(got, expect)), [n.path for n in got]

# the first k matches
for k in (1, 2, 3):
    got = top.find_all("x", max_results=k)
    assert len(got) == k and all(a is b for a, b in zip(got, expect)), (
        k,
        [n.path for n in got],
    )

assert top.find_first("x") is expect[0], top.find_first("x").path
assert top.find("x") is expect[0]

# smaller branches still behave
assert kids[3].find_all("x") == ref(kids[3], "x")
assert kids[5].find_all("x") == []

print("OK")
