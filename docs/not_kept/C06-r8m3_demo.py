import os, sys; sys.path.insert(0, os.getcwd())  # noqa: E401,E702

from nutree import IterMethod, Tree

# Children are loaded lazily while we walk the tree (same thread): when the
# traversal arrives at a node, the consumer appends that node's children.
SPEC = {
    "root": ["A", "B"],
    "A": ["a1", "a2"],
    "a1": ["a11", "a12"],
    "B": ["b1"],
    "b1": ["b11"],
}
FULL_PRE_ORDER = ["root", "A", "a1", "a11", "a12", "a2", "B", "b1", "b11"]


def expand(node):
    for name in SPEC.get(node.name, ()):
        node.add(name)


# --- iterator: `for node in tree` (pre-order)
tree = Tree("lazy")
tree.add("root")
seen = []
for node in tree:
    seen.append(node.name)
    expand(node)

final = [n.name for n in tree.iterator(IterMethod.PRE_ORDER)]
# every node of the branch exactly once, in pre-order
assert seen == final, f"iterator yielded {seen}, tree is {final}"
assert final == FULL_PRE_ORDER

# --- same for a branch start node with add_self
tree = Tree("lazy")
top = tree.add("root")
seen = []
for node in top.iterator(add_self=True):
    seen.append(node.name)
    expand(node)
assert seen == FULL_PRE_ORDER, seen

# --- callback driven visit() follows the same order as the iterator
tree = Tree("lazy")
tree.add("root")
seen_visit = []


def cb(node, memo):
    seen_visit.append(node.name)
    expand(node)


tree.visit(cb)
assert seen_visit == FULL_PRE_ORDER
assert seen_visit == seen, (seen_visit, seen)

print("OK")
