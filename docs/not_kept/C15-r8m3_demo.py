import os, sys; sys.path.insert(0, os.getcwd())
from nutree import TypedTree


def by_kind(tree, kind):
    """Reference: filter the (current) tree in document order."""
    return [n for n in tree if n.kind == kind]


# --- 1. Prune while iterating -------------------------------------------------
tree = TypedTree("fs")
a = tree.add("A", kind="dir")
a1 = a.add("A1", kind="dir")
a1.add("A1x", kind="dir")
a1.add("f1", kind="file")
a.add("f2", kind="file")
b = tree.add("B", kind="dir")
b.add("B1", kind="dir")

seen = []
for n in tree.iter_by_type("dir"):
    # every node handed out must (still) be a node of this tree
    assert any(m is n for m in tree), f"got a node that was removed before: {n!r}"
    seen.append(n)
    if n is a:
        n.remove_children()  # prune the branch below the current node

expect = by_kind(tree, "dir")
assert [n.name for n in expect] == ["A", "B", "B1"]
assert len(seen) == len(expect) and all(x is y for x, y in zip(seen, expect)), (
    [n.name for n in seen]
)

# --- 2. Expand while iterating (lazy loading of sub directories) --------------
tree = TypedTree("fs")
tree.add("r1", kind="dir")
tree.add("r2", kind="dir")

seen = []
for n in tree.iter_by_type("dir"):
    seen.append(n)
    if n.depth() < 3:
        n.add(f"{n.name}.s", kind="dir")
        n.add(f"{n.name}.txt", kind="file")

expect = by_kind(tree, "dir")
assert [n.name for n in expect] == ["r1", "r1.s", "r1.s.s", "r2", "r2.s", "r2.s.s"]
assert len(seen) == len(expect) and all(x is y for x, y in zip(seen, expect)), (
    [n.name for n in seen]
)

print("OK")
