"""sort_children()/Tree.sort(reverse=True) must be a stable sort.

list.sort(key=..., reverse=True) - the documented behaviour of the `key` and
`reverse` arguments - keeps nodes with EQUAL keys in their current order.
"""
import os
import sys

sys.path.insert(0, os.getcwd())  # run with cwd = source tree root

from nutree import Tree  # noqa: E402

# 1. custom key with ties
tree = Tree()
for name in ["b1", "a1", "c1", "a2", "b2", "a3"]:
    tree.add(name).add(name + "x")

nodes = list(tree.children)


def by_letter(node):
    return node.name[0]


expect = sorted(nodes, key=by_letter, reverse=True)  # reference: stable
tree.sort(key=by_letter, reverse=True, deep=False)
got = [n.name for n in tree.children]
assert got == ["c1", "b1", "b2", "a1", "a2", "a3"], got
assert all(a is b for a, b in zip(tree.children, expect))

# 2. default key (node.name): 1 and "1" are different data with the same name
parent = tree["c1"]
parent.remove_children()
for data in [2, "1", 1, "2", 3]:
    parent.add(data)
parent.sort_children(reverse=True)
got = [n.data for n in parent.children]
assert got == [3, 2, "2", "1", 1], got

# ascending order is stable as well
parent.sort_children()
got = [n.data for n in parent.children]
assert got == ["1", 1, 2, "2", 3], got

# nothing else changed
assert len(tree) == 6 + 5 + 5
assert [n.name for n in tree["a1"].children] == ["a1x"]
print("OK")
