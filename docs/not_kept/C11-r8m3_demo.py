import os, sys; sys.path.insert(0, os.getcwd())
# Trees may be built with a custom node class (`Tree(factory=...)`). diff()
# matches peers with `node == node`, so a node class that overrides `__eq__`
# decides what 'the same child' means. Here: records are identified by their
# key, not by their (mutable) content - two snapshots of the same records.
from nutree import Node, Tree
from nutree.diff import DiffClassification as DC


class RecordNode(Node):
    def __eq__(self, other):
        if isinstance(other, Node):
            return self.data_id == other.data_id
        return self.data == other

    __hash__ = None


def snapshot(name, records):
    """records: list of (parent_key, key, payload)"""
    t = Tree(name, factory=RecordNode)
    for parent, key, payload in records:
        p = t.find(data_id=parent) if parent else t
        p.add(dict(payload), data_id=key)
    return t


def marks(tree):
    return [(n.data_id, n.get_meta("dc")) for n in tree if n.get_meta("dc")]


base = [
    (None, "dep1", {"title": "Development"}),
    ("dep1", "p1", {"name": "Alice", "age": 23}),
    ("dep1", "p2", {"name": "Bob", "age": 32}),
    (None, "dep2", {"title": "Marketing"}),
    ("dep2", "p3", {"name": "Carol", "age": 43}),
]
t0 = snapshot("T0", base)
assert all(type(n) is RecordNode for n in t0)

# 1. Same records, but some payloads were edited: structure is identical
later = [(p, k, dict(d)) for p, k, d in base]
later[1][2]["age"] = 24
later[3][2]["title"] = "Marketing & Sales"
t1 = snapshot("T1", later)
for ordered in (False, True):
    d = t0.diff(t1, ordered=ordered)
    assert marks(d) == [], marks(d)
    assert [n.data_id for n in d] == [n.data_id for n in t0]
    assert len(t0.diff(t1, ordered=ordered, reduce=True)) == 0

# 2. Additionally p2 is removed and p4 is new below the (renamed) dep2
later = [r for r in later if r[1] != "p2"] + [("dep2", "p4", {"name": "Dave"})]
t1 = snapshot("T1", later)
d = t0.diff(t1)
assert marks(d) == [("p2", DC.REMOVED), ("p4", DC.ADDED)], marks(d)
kept = [n for n in d if n.get_meta("dc") not in (DC.REMOVED, DC.MOVED_TO)]
assert [(n.depth(), n.data_id) for n in kept] == [(n.depth(), n.data_id) for n in t1]
kept = [n for n in d if n.get_meta("dc") not in (DC.ADDED, DC.MOVED_HERE)]
assert [(n.depth(), n.data_id) for n in kept] == [(n.depth(), n.data_id) for n in t0]
d = t0.diff(t1, reduce=True)
assert [n.data_id for n in d] == ["dep1", "p2", "dep2", "p4"]
print("OK")
