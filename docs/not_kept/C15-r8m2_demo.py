import os, sys; sys.path.insert(0, os.getcwd())
from nutree import TypedTree
from nutree.typed_tree import ANY_KIND


class Kind(str):
    """Relation names are case-insensitive in this application."""

    def __eq__(self, other):
        if isinstance(other, str):
            return self.casefold() == other.casefold()
        return NotImplemented

    def __ne__(self, other):
        res = self.__eq__(other)
        return res if res is NotImplemented else not res

    def __hash__(self):
        return hash(self.casefold())


tree = TypedTree("demo")
func = tree.add("func", kind=Kind("Function"))
fail = func.add("fail", kind=Kind("Failure"))
fail.add("c1", kind=Kind("Cause"))
fail.add("e1", kind=Kind("Effect"))
fail.add("c2", kind=Kind("Cause"))
plain = func.add("plain", kind="failure")  # a plain-str kind
plain.add("p1", kind="Cause")
plain.add("p2", kind="Effect")

queries = [
    "Cause", "cause", "CAUSE", Kind("cause"), Kind("CAUSE"),
    "Effect", "EFFECT", Kind("effect"),
    "unknown", Kind("Unknown"), "Failure", Kind("failure"),
]  # fmt: skip

for node in [tree.system_root, *tree]:
    for kind in queries:
        expect = [c for c in node.children if c.kind == kind]
        got = node.get_children(kind)
        assert len(got) == len(expect) and all(a is b for a, b in zip(got, expect))
        assert node.has_children(kind) is bool(expect), (
            f"{node.name}.has_children({kind!r}) -> {node.has_children(kind)}, "
            f"but children of that kind are {[c.name for c in expect]}"
        )
        first = node.first_child(kind)
        assert first is (expect[0] if expect else None)
    assert node.has_children(ANY_KIND) is bool(node.children)

print("OK")
