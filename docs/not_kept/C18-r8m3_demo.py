import os, sys; sys.path.insert(0, os.getcwd())
# C18: a shallow copy made with copy.copy(tree) is a second handle on the SAME
# nodes (same root, same registry).  Snapshot operations that go through this
# handle read the very tree that a writer modifies inside `with tree:`, so they
# have to wait for the end of the critical section like any other snapshot.
import copy
import io
import threading

from nutree import Tree

tree = Tree("t")
tree.add("a").add("b")
alias = copy.copy(tree)
assert alias._root is tree._root and alias is not tree

OPS = {
    "to_dict_list": lambda t: [d["data"] for d in t.to_dict_list()],
    "copy": lambda t: [n.data for n in t.copy().children],
    "filtered": lambda t: [n.data for n in t.filtered(lambda n: True).children],
    "save": lambda t: t.save(io.StringIO()) or [n.data for n in t.children],
    "with": lambda t: t.__enter__() and ([n.data for n in t.children], t.__exit__(None, None, None))[0],
}

for rnd, (name, op) in enumerate(OPS.items()):
    inside, go = threading.Event(), threading.Event()

    def writer():
        with tree:
            tree.add(f"first{rnd}")
            inside.set()
            go.wait(10)
            tree.add(f"second{rnd}")  # the two belong together

    result = []
    w = threading.Thread(target=writer)
    r = threading.Thread(target=lambda: result.append(op(alias)), daemon=True)
    w.start()
    assert inside.wait(10)
    r.start()
    r.join(0.5)
    early = list(result)
    go.set()
    w.join(10)
    r.join(10)
    assert not r.is_alive() and not w.is_alive()
    assert not early, f"{name}: ran while a writer was inside `with tree:` -> {early}"
    top = result[0]
    assert f"first{rnd}" in top and f"second{rnd}" in top, (name, top)

# the owner may use the second handle inside its own critical section
with tree:
    with alias:
        assert len(alias.copy()) == len(tree)
print("OK")
