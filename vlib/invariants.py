"""State predicates shared by C01 (well-formed tree), C02 (index exactness),
C03 (sibling uniqueness) and C13 (after faults).  Everything is read through
the public API; the structural walk does not use nutree's iterators."""

from __future__ import annotations

from vlib.observe import walk


def nm(n):
    try:
        return f"{n.data!r}/{n.data_id!r}"
    except Exception:  # noqa: BLE001
        return repr(n)


def structural(tree, ever=None):
    """C01: list of (bucket, detail)."""
    out = []
    w = walk(tree)
    for p in w.problems:
        out.append(("walk:" + str(p[0]), p[1]))
    if out:
        return out, w
    reached = w.pre
    ids = {id(n) for n in reached}
    for n in reached:
        p = w.parent[id(n)]
        try:
            if n.tree is not tree:
                out.append(("owner", nm(n)))
            if n.parent is not p:
                out.append(("parent-link", [nm(n), nm(n.parent) if n.parent is not None else None, nm(p) if p is not None else None]))
            sibs = w.kids[id(p)]
            if sum(1 for s in sibs if s is n) != 1:
                out.append(("not-exactly-once-in-parent", nm(n)))
            # never its own ancestor / chain terminates
            x, steps = n.parent, 0
            while x is not None and steps <= len(reached) + 1:
                if x is n:
                    out.append(("own-ancestor", nm(n)))
                    break
                x = x.parent
                steps += 1
            if steps > len(reached) + 1:
                out.append(("parent-chain-does-not-terminate", nm(n)))
        except Exception as e:  # noqa: BLE001
            out.append(("accessor-raises", [nm(n), repr(e)]))
        if out:
            return out, w
    try:
        cnt, ln = tree.count, len(tree)
    except Exception as e:  # noqa: BLE001
        return [("count-raises", repr(e))], w
    if cnt != len(reached) or ln != len(reached):
        out.append(("count", {"count": cnt, "len": ln, "reachable": len(reached)}))
    nids = [n.node_id for n in reached]
    if len(set(nids)) != len(nids):
        out.append(("node_id-not-unique", None))
    for n in reached:
        try:
            f = tree.find_first(node_id=n.node_id)
        except Exception as e:  # noqa: BLE001
            f = e
        if f is not n:
            out.append(("find_first(node_id)-misses-reachable-node", nm(n)))
            break
    try:
        it = list(tree)
    except Exception as e:  # noqa: BLE001
        it = None
        out.append(("iteration-raises", repr(e)))
    if it is not None and ([id(x) for x in it] != [id(x) for x in reached]):
        out.append(("iteration-differs-from-reachable-set", {"iter": len(it), "reachable": len(reached)}))
    if ever is not None:
        for key, (node, former_id) in ever.items():
            if key in ids:
                continue
            try:
                f = tree.find_first(node_id=former_id) if former_id else None
            except Exception:  # noqa: BLE001
                f = None
            if f is node:
                out.append(("removed-node-still-found-by-node_id", repr(former_id)))
                break
    return out, w


def sibling_unique(tree, w):
    """C03"""
    out = []
    for key, kids in w.kids.items():
        seen = {}
        for c in kids:
            d = c.data_id
            if d in seen:
                out.append(("duplicate-sibling-data_id", [nm(seen[d]), nm(c)]))
                return out
            seen[d] = c
    return out


def index_exact(tree, w, extra_ids=(), extra_data=(), calc=None):
    """C02: lookups by data / data_id / clone queries vs brute-force scan."""
    out = []
    groups = {}
    for n in w.pre:
        groups.setdefault(n.data_id, []).append(n)

    def same_set(a, b):
        return len(a) == len(b) and {id(x) for x in a} == {id(x) for x in b} and len({id(x) for x in a}) == len(a)

    for did, grp in list(groups.items()) + [(d, []) for d in extra_ids if d not in groups]:
        try:
            got = tree.find_all(data_id=did)
            if not same_set(list(got), grp):
                out.append(("find_all(data_id)", {"id": repr(did), "got": [nm(x) for x in got], "scan": [nm(x) for x in grp]}))
                return out
            f = tree.find_first(data_id=did)
            if (f is None) != (not grp) or (f is not None and not any(f is g for g in grp)):
                out.append(("find_first(data_id)", {"id": repr(did), "got": nm(f) if f is not None else None}))
                return out
            # the same lookup started on a node: the invisible system root (= the whole tree) and every top node
            sr = tree.system_root
            got = sr.find_all(data_id=did)
            if not same_set(list(got), grp):
                out.append(("system_root.find_all(data_id)", {"id": repr(did), "got": [nm(x) for x in got], "scan": [nm(x) for x in grp]}))
                return out
            f = sr.find_first(data_id=did)
            if (f is None) != (not grp) or (f is not None and not any(f is g for g in grp)):
                out.append(("system_root.find_first(data_id)", {"id": repr(did), "got": nm(f) if f is not None else None}))
                return out
            for t in w.kids[id(None)]:
                below = {id(t)}
                stack = [t]
                while stack:
                    x = stack.pop()
                    for c in w.kids[id(x)]:
                        below.add(id(c))
                        stack.append(c)
                got = t.find_all(data_id=did, add_self=True)
                if not same_set(list(got), [g for g in grp if id(g) in below]):
                    out.append(("node.find_all(data_id,add_self)", {"id": repr(did), "start": nm(t), "got": [nm(x) for x in got]}))
                    return out
        except Exception as e:  # noqa: BLE001
            out.append(("lookup-raises", [repr(did), repr(e)]))
            return out
    for n in w.pre:
        grp = groups[n.data_id]
        try:
            c0 = n.get_clones()
            c1 = n.get_clones(add_self=True)
            ic = n.is_clone()
        except Exception as e:  # noqa: BLE001
            out.append(("clone-query-raises", [nm(n), repr(e)]))
            return out
        if not same_set(list(c0), [g for g in grp if g is not n]):
            out.append(("get_clones", {"node": nm(n), "got": [nm(x) for x in c0], "scan": len(grp) - 1}))
            return out
        if not same_set(list(c1), grp):
            out.append(("get_clones(add_self)", {"node": nm(n), "got": [nm(x) for x in c1], "scan": len(grp)}))
            return out
        if ic is not (len(grp) > 1):
            out.append(("is_clone", {"node": nm(n), "got": ic, "group": len(grp)}))
            return out
    try:
        cu = tree.count_unique
    except Exception as e:  # noqa: BLE001
        cu = repr(e)
    if cu != len(groups):
        out.append(("count_unique", {"got": cu, "scan": len(groups)}))
    # lookups by data object
    if calc is not None:
        for data in extra_data:
            try:
                did = calc(data)
            except Exception:  # noqa: BLE001
                continue
            grp = groups.get(did, [])
            try:
                got = tree.find_all(data)
                f = tree.find_first(data)
                inn = data in tree
            except Exception as e:  # noqa: BLE001
                out.append(("lookup-by-data-raises", [repr(data), repr(e)]))
                return out
            if not same_set(list(got), grp):
                out.append(("find_all(data)", {"data": repr(data), "got": [nm(x) for x in got], "scan": [nm(x) for x in grp]}))
                return out
            if (f is None) != (not grp) or (f is not None and not any(f is g for g in grp)):
                out.append(("find_first(data)", {"data": repr(data)}))
                return out
            if inn is not bool(grp):
                out.append(("data in tree", {"data": repr(data), "got": inn, "scan": len(grp)}))
                return out
    return out


def all_invariants(tree, ever=None):
    s, w = structural(tree, ever)
    if s:
        return [("C01:" + b, d) for b, d in s]
    out = [("C03:" + b, d) for b, d in sibling_unique(tree, w)]
    out += [("C02:" + b, d) for b, d in index_exact(tree, w)]
    return out
