"""Hypothesis strategies producing JSON-able values (DESIGN 2.1)."""

from __future__ import annotations

import os

from hypothesis import strategies as st

from vlib.build import ALPHA, KINDS


@st.composite
def forest_specs(
    draw,
    max_nodes: int = 20,
    max_depth: int = 6,
    max_width: int = 5,
    alphabet=ALPHA,
    unique: bool = False,
    opts=None,
    min_nodes: int = 0,
    big=None,
):
    """Constructive tree-spec generator.  Sibling labels are distinct by
    construction; with a small alphabet clones (same label under different
    parents, also nested) are frequent.  `unique=True` labels n0, n1, ...
    `opts` is an optional strategy for the per-node opts dict."""
    # big: None = one forest in BIG_ONE_IN is a big one, False/0 = never, n = one in n; (n, max_width) limits the width
    big_max = None
    if isinstance(big, tuple):
        big, big_max = big
    if big is None or big is True:
        big = BIG_ONE_IN
    if big and int(big) > 1 and os.environ.get("VERIF_TIER") == "thorough":
        big = int(big) * 3  # 100 times the cases: a third of the share gives 30 times as many big trees
    if big and BIG_DEFAULT and draw(st.sampled_from([0] * (int(big) - 1) + [1])):
        return draw(big_specs(alphabet=alphabet, unique=unique, opts=opts, max_w=big_max))
    budget = [draw(st.integers(min_nodes, max_nodes))]
    counter = [0]

    def level(depth, avail):
        if budget[0] <= 0 or depth > max_depth:
            return []
        hi = min(max_width, budget[0], len(avail) if not unique else max_width)
        lo = 1 if depth == 1 and min_nodes > 0 else 0
        k = draw(st.integers(lo, max(lo, hi)))
        if k == 0:
            return []
        if unique:
            labels = []
            for _ in range(k):
                labels.append(f"n{counter[0]}")
                counter[0] += 1
        else:
            labels = draw(st.lists(st.sampled_from(avail), min_size=k, max_size=k, unique=True))
        budget[0] -= k
        out = []
        for lab in labels:
            node = [lab, None]
            if opts is not None:
                o = draw(opts)
                if o:
                    node.append(o)
            out.append(node)
        for node in out:
            node[1] = level(depth + 1, avail)
        return out

    return level(1, list(alphabet))


# Sizes matter: a child list of more than 16 / 32 / 64 / 128 / 256 entries, a clone group of more than 32 / 64 members
# or a tree of more than 256 nodes is where a "bulk" or "chunked" code path would start.  One generated forest in
# BIG_ONE_IN is therefore a big one.  It is expanded deterministically from a handful of drawn parameters (so it
# costs little entropy and shrinks to the smallest width that still fails).
BIG_DEFAULT = os.environ.get("VERIF_BIG", "1") != "0"
BIG_ONE_IN = 20
BIG_W = [11, 17, 18, 25, 33, 34, 41, 50, 65, 66, 100, 129, 130, 200, 257, 300]


@st.composite
def big_specs(draw, alphabet=ALPHA, unique=False, opts=None, max_w=None):
    W = draw(st.sampled_from([w for w in BIG_W if max_w is None or w <= max_w]))
    shape = draw(st.sampled_from(["wide", "wide", "wide-nested", "clones"]))
    if unique and shape == "clones":
        shape = "wide"
    alphabet = list(alphabet)
    kinds = bool(getattr(opts, "_verif_kinds", False))
    kpat = draw(st.sampled_from([1, 2, 3])) if kinds else 1
    # a small ordinary forest that is hung below some of the many siblings (the same labels several times = clones
    # at low and at high sibling positions)
    sub = draw(forest_specs(max_nodes=5, max_depth=3, max_width=3, alphabet=alphabet, unique=False, opts=opts, min_nodes=1, big=False))
    cand = sorted({p for p in (0, 1, 2, 9, 10, 11, W - 33, W - 32, W - 17, W - 2, W - 1, W // 2) if 0 <= p < W})
    pos = set(draw(st.lists(st.sampled_from(cand), min_size=1, max_size=3)))
    few_opts = [draw(opts) if opts is not None else None for _ in range(3)]
    counter = [0]

    def relabel(nodes):
        out = []
        for n in nodes:
            m = [f"s{counter[0]}", None] + [dict(o) for o in n[2:]]
            counter[0] += 1
            m[1] = relabel(n[1])
            out.append(m)
        return out

    def copy(nodes):
        return [[n[0], copy(n[1])] + [dict(o) for o in n[2:]] for n in nodes]

    n_alpha = 0 if unique else draw(st.sampled_from([0, 0, min(3, len(alphabet))]))
    wide = []
    for i in range(W):
        label = alphabet[i] if i < n_alpha else f"w{i}"
        node = [label, []]
        if shape == "clones" and alphabet:
            node[1] = [[alphabet[0], []]]
        if i in pos:
            node[1] = node[1] + [c for c in (relabel(sub) if unique else copy(sub)) if not node[1] or c[0] != node[1][0][0]]
        o = {}
        if kinds and kpat > 1 and i % kpat:
            o["kind"] = KINDS[i % kpat]
        if i in pos and few_opts[i % 3]:
            o.update(few_opts[i % 3])
        if o:
            node.append(o)
        wide.append(node)
    if shape == "wide-nested":
        top = [f"s{counter[0]}" if unique else (alphabet[-1] if alphabet else "r"), wide]
        return [top, ["w_tail", []]]
    return wide


def node_opts(explicit_ids: bool = True, kinds: bool = False, meta: bool = False, fresh: bool = False):
    """Strategy for per-node opts; most nodes get none."""
    fields = {}
    if explicit_ids:
        # 0 is a legal (falsy) explicit id
        # 0 is a legal (falsy) explicit id; "007" / "42" are strings that look like numbers (42 is also used as int)
        fields["id"] = st.one_of(st.sampled_from(["X1", "X2", "X3", "007", "42"]), st.integers(1000, 1003), st.sampled_from([0, 1000, "X1", 42]))
    if kinds:
        fields["kind"] = st.sampled_from(KINDS)
    if meta:
        fields["meta"] = st.dictionaries(st.sampled_from(["m1", "m2"]), st.integers(1, 3), min_size=1, max_size=2)
    if fresh:
        fields["fresh"] = st.just(True)

    @st.composite
    def one(draw):
        o = {}
        for k, s in fields.items():
            p = 2 if k == "kind" else 6
            if draw(st.integers(0, p)) == 0 or (k == "kind" and draw(st.booleans())):
                o[k] = draw(s)
        return o

    s = one()
    try:
        s._verif_kinds = bool(kinds)  # big_specs() gives the many siblings mixed kinds
    except Exception:
        pass
    return s


def spec_nodes(spec) -> int:
    return sum(1 + spec_nodes(n[1]) for n in spec)


def spec_depth(spec) -> int:
    return 0 if not spec else 1 + max(spec_depth(n[1]) for n in spec)


def spec_has_clone(spec) -> bool:
    seen = set()

    def rec(nodes):
        for n in nodes:
            key = (n[0], (n[2].get("id") if len(n) > 2 and n[2] else None))
            if key in seen:
                return True
            seen.add(key)
            if rec(n[1]):
                return True
        return False

    return rec(spec)


def _auto_id(label):
    # hash("") == 0, i.e. the empty string's default id equals the explicit id 0
    return ("x", 0) if label == "" else ("auto", label)


def fix_sibling_ids(spec, auto=_auto_id):
    """Make a spec legal by construction: drop explicit ids until no two
    siblings have the same effective data_id (in place; returns spec)."""

    def has_id(n):
        return len(n) > 2 and n[2] and n[2].get("id") is not None

    def rec(nodes):
        while True:
            effs = [("x", n[2]["id"]) if has_id(n) else auto(n[0]) for n in nodes]
            victim = None
            for e in effs:
                if effs.count(e) > 1:
                    victim = next((n for n, f in zip(nodes, effs) if f == e and has_id(n)), None)
                    if victim is not None:
                        break
            if victim is None:
                break
            del victim[2]["id"]
        for n in nodes:
            rec(n[1])

    rec(spec)
    return spec


def localize_ids(spec, labels):
    """Explicit ids become a function of (id, label), so that one data_id is
    never shared by nodes holding different data (in place; returns spec)."""

    zero_label = []

    def has_empty(nodes):
        return any(n[0] == "" or has_empty(n[1]) for n in nodes)

    if has_empty(spec):
        zero_label.append("")  # hash("") == 0: the id 0 already belongs to the data ""

    def rec(nodes):
        for n in nodes:
            if len(n) > 2 and n[2] and n[2].get("id") is not None:
                i = n[2]["id"]
                li = labels.index(n[0]) if n[0] in labels else 99
                if i == 0 and not isinstance(i, str):
                    # the falsy id 0 is kept for the first label that gets it (and its clones)
                    if not zero_label:
                        zero_label.append(n[0])
                    n[2]["id"] = 0 if zero_label[0] == n[0] else 900 + li
                else:
                    n[2]["id"] = f"{i}:{n[0]}" if isinstance(i, str) else i * 100 + li
            rec(n[1])

    rec(spec)
    return spec
