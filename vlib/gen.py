"""Hypothesis strategies producing JSON-able values (DESIGN 2.1)."""

from __future__ import annotations

from hypothesis import strategies as st

from vlib.build import ALPHA, KINDS


@st.composite
def forest_specs(
    draw,
    max_nodes: int = 20,
    max_depth: int = 6,
    max_width: int = 5,
    alphabet=ALPHA,
    unique: bool = False,
    opts=None,
    min_nodes: int = 0,
):
    """Constructive tree-spec generator.  Sibling labels are distinct by
    construction; with a small alphabet clones (same label under different
    parents, also nested) are frequent.  `unique=True` labels n0, n1, ...
    `opts` is an optional strategy for the per-node opts dict."""
    budget = [draw(st.integers(min_nodes, max_nodes))]
    counter = [0]

    def level(depth, avail):
        if budget[0] <= 0 or depth > max_depth:
            return []
        hi = min(max_width, budget[0], len(avail) if not unique else max_width)
        lo = 1 if depth == 1 and min_nodes > 0 else 0
        k = draw(st.integers(lo, max(lo, hi)))
        if k == 0:
            return []
        if unique:
            labels = []
            for _ in range(k):
                labels.append(f"n{counter[0]}")
                counter[0] += 1
        else:
            labels = draw(st.lists(st.sampled_from(avail), min_size=k, max_size=k, unique=True))
        budget[0] -= k
        out = []
        for lab in labels:
            node = [lab, None]
            if opts is not None:
                o = draw(opts)
                if o:
                    node.append(o)
            out.append(node)
        for node in out:
            node[1] = level(depth + 1, avail)
        return out

    return level(1, list(alphabet))


def node_opts(explicit_ids: bool = True, kinds: bool = False, meta: bool = False, fresh: bool = False):
    """Strategy for per-node opts; most nodes get none."""
    fields = {}
    if explicit_ids:
        # 0 is a legal (falsy) explicit id
        # 0 is a legal (falsy) explicit id; "007" / "42" are strings that look like numbers (42 is also used as int)
        fields["id"] = st.one_of(st.sampled_from(["X1", "X2", "X3", "007", "42"]), st.integers(1000, 1003), st.sampled_from([0, 1000, "X1", 42]))
    if kinds:
        fields["kind"] = st.sampled_from(KINDS)
    if meta:
        fields["meta"] = st.dictionaries(st.sampled_from(["m1", "m2"]), st.integers(1, 3), min_size=1, max_size=2)
    if fresh:
        fields["fresh"] = st.just(True)

    @st.composite
    def one(draw):
        o = {}
        for k, s in fields.items():
            p = 2 if k == "kind" else 6
            if draw(st.integers(0, p)) == 0 or (k == "kind" and draw(st.booleans())):
                o[k] = draw(s)
        return o

    return one()


def spec_nodes(spec) -> int:
    return sum(1 + spec_nodes(n[1]) for n in spec)


def spec_depth(spec) -> int:
    return 0 if not spec else 1 + max(spec_depth(n[1]) for n in spec)


def spec_has_clone(spec) -> bool:
    seen = set()

    def rec(nodes):
        for n in nodes:
            key = (n[0], (n[2].get("id") if len(n) > 2 and n[2] else None))
            if key in seen:
                return True
            seen.add(key)
            if rec(n[1]):
                return True
        return False

    return rec(spec)


def _auto_id(label):
    # hash("") == 0, i.e. the empty string's default id equals the explicit id 0
    return ("x", 0) if label == "" else ("auto", label)


def fix_sibling_ids(spec, auto=_auto_id):
    """Make a spec legal by construction: drop explicit ids until no two
    siblings have the same effective data_id (in place; returns spec)."""

    def has_id(n):
        return len(n) > 2 and n[2] and n[2].get("id") is not None

    def rec(nodes):
        while True:
            effs = [("x", n[2]["id"]) if has_id(n) else auto(n[0]) for n in nodes]
            victim = None
            for e in effs:
                if effs.count(e) > 1:
                    victim = next((n for n, f in zip(nodes, effs) if f == e and has_id(n)), None)
                    if victim is not None:
                        break
            if victim is None:
                break
            del victim[2]["id"]
        for n in nodes:
            rec(n[1])

    rec(spec)
    return spec


def localize_ids(spec, labels):
    """Explicit ids become a function of (id, label), so that one data_id is
    never shared by nodes holding different data (in place; returns spec)."""

    zero_label = []

    def has_empty(nodes):
        return any(n[0] == "" or has_empty(n[1]) for n in nodes)

    if has_empty(spec):
        zero_label.append("")  # hash("") == 0: the id 0 already belongs to the data ""

    def rec(nodes):
        for n in nodes:
            if len(n) > 2 and n[2] and n[2].get("id") is not None:
                i = n[2]["id"]
                li = labels.index(n[0]) if n[0] in labels else 99
                if i == 0 and not isinstance(i, str):
                    # the falsy id 0 is kept for the first label that gets it (and its clones)
                    if not zero_label:
                        zero_label.append(n[0])
                    n[2]["id"] = 0 if zero_label[0] == n[0] else 900 + li
                else:
                    n[2]["id"] = f"{i}:{n[0]}" if isinstance(i, str) else i * 100 + li
            rec(n[1])

    rec(spec)
    return spec
