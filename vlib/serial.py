"""Profiles (tree class x data flavour x mapper style) and option handling shared
by C05 (round trip) and C12 (file layout).  DESIGN sections C05 / C12 / 2.7."""

from __future__ import annotations

import dataclasses
import io
import json
import os
import zipfile
from pathlib import Path

from hypothesis import strategies as st

from vlib import gen
from vlib.observe import walk

from nutree import Tree, TypedTree
from nutree.common import DictWrapper
from nutree.fs import FileSystemEntry, FileSystemTree

LABELS = ["a", "b", "c", "d", "e", "a1", "ä", "名☃", 'q"t', "b\\s", "n\nl", " sp ", ""]
SURROGATE_LABEL = "u\udc80x"
PERSON_LABELS = {"a", "c", "e", "ä"}


class Tag(str):
    """a str subclass whose str() and format() texts differ from its value (as a str-mixin Enum member, a markup
    or label class): it IS a string, so it is stored by value; it equals (and hashes like) the plain string"""

    def __str__(self):
        return "s:" + self[:]

    def __format__(self, spec):
        return format("f:" + self[:], spec)

    def __repr__(self):
        return "Tag(" + repr(self[:]) + ")"


TAG_LABELS = {"b", "d", "名☃"}


class Person:
    kind = "human"  # an ordinary attribute of the data object (visible as node.kind with forward_attrs=True)

    def __init__(self, name, *, age, guid):
        self.name, self.age, self.guid = name, age, guid

    def __repr__(self):
        return f"Person<{self.name}, {self.age}>"


class Department:
    kind = "unit"

    def __init__(self, name, *, guid):
        self.name, self.guid = name, guid

    def __repr__(self):
        return f"Department<{self.name}>"


class FalsyItem:
    """A perfectly legal data object that happens to be falsy (e.g. an empty
    container-like record)."""

    def __init__(self, name, *, guid):
        self.name, self.guid = name, guid

    def __bool__(self):
        return False

    def __repr__(self):
        return f"FalsyItem<{self.name}>"


def _calc_id(tree, data):
    if isinstance(data, (Person, Department, FalsyItem)):
        return data.guid
    return hash(data)


def obj_serialize_mapper(node, data):
    d = node.data
    if isinstance(d, Department):
        data["type"] = "dept"
        data["name"] = d.name
    elif isinstance(d, Person):
        data["type"] = "person"
        data["name"] = d.name
        data["age"] = d.age
    elif isinstance(d, FalsyItem):
        data["type"] = "falsy"
        data["name"] = d.name
    return data


def obj_deserialize_mapper(parent, data):
    if data["type"] == "falsy":
        return FalsyItem(data["name"], guid=data["data_id"])
    if data["type"] == "person":
        return Person(data["name"], age=data["age"], guid=data["data_id"])
    return Department(data["name"], guid=data["data_id"])


class MyTree(Tree):
    """Derived-class style of the user guide (maps and mappers as class members)."""

    DEFAULT_KEY_MAP = {"data_id": "i", "str": "s", "type": "t", "name": "n", "age": "a"}
    DEFAULT_VALUE_MAP = {"type": ["person", "dept"]}

    def calc_data_id(self, data):
        if hasattr(data, "guid"):
            return data.guid
        return hash(data)

    def serialize_mapper(self, node, data):
        return obj_serialize_mapper(node, data)

    @staticmethod
    def deserialize_mapper(parent, data):
        return obj_deserialize_mapper(parent, data)


class MyTypedTree(TypedTree):
    DEFAULT_KEY_MAP = {"data_id": "i", "str": "s", "kind": "k", "type": "t", "name": "n", "age": "a"}
    DEFAULT_VALUE_MAP = {"type": ["person", "dept"]}

    def calc_data_id(self, data):
        if hasattr(data, "guid"):
            return data.guid
        return hash(data)

    def serialize_mapper(self, node, data):
        return obj_serialize_mapper(node, data)

    @staticmethod
    def deserialize_mapper(parent, data):
        return obj_deserialize_mapper(parent, data)


def obj_deserialize_mapper_consuming(parent, data):
    """A mapper that consumes the dict it is given (legal: the dict is the mapper's input)."""
    guid = data.pop("data_id")
    typ = data.pop("type")
    if typ == "falsy":
        return FalsyItem(data.pop("name"), guid=guid)
    if typ == "person":
        return Person(data.pop("name"), age=data.pop("age"), guid=guid)
    return Department(data.pop("name"), guid=guid)


def typed_deserialize_mapper_consuming(parent, data):
    """typed trees: the entry the mapper is handed carries the node's kind (a mapper may need it to decide what to
    build); this one takes everything out of the dict it was given - kind and data_id included"""
    kind = data.pop("kind")
    assert isinstance(kind, str), kind
    return obj_deserialize_mapper_consuming(parent, data)


@dataclasses.dataclass(frozen=True)
class Part:
    """a value object (hashable by value; its hash depends on the str hash seed of the process)"""

    name: str


def part_serialize_mapper(node, data):
    data["pname"] = node.data.name
    return data


def part_deserialize_mapper(parent, data):
    return Part(data["pname"])


def build_parts(spec):
    tree = Tree("parts")

    def add_all(parent, items):
        for item in items:
            add_all(parent.add(Part(item[0])), item[1])

    add_all(tree, spec)
    return tree


def str_mapper(parent, data):
    return data["str"]


def str_chk_serialize_mapper(node, data):
    """a serialize mapper for STRING nodes (typed string nodes are always written as dict entries): adds a field"""
    data["chk"] = len(node.data)
    return data


def str_chk_deserialize_mapper(parent, data):
    if data.get("chk") != len(data["str"]):
        raise ValueError(f"entry lacks the field the serialize mapper added: {data!r}")
    return data["str"]


PROFILES = ["str", "obj", "obj_falsy", "obj_pop", "obj_fwd", "dictwrap", "derived", "typed_str", "typed_obj", "typed_obj_pop", "typed_derived", "fs", "fs_plain"]
# profiles that only C05 uses: a typed tree of DictWrapper objects with the library's DictWrapper mappers
C05_PROFILES = PROFILES + ["typed_dictwrap", "typed_str_chk"]
DW_KINDS = ["child", "x", "y", "z"]


class Profile:
    def __init__(self, name):
        assert name in C05_PROFILES
        self.name = name
        self.typed = name.startswith("typed")
        self.pool = {}

    # -- construction -------------------------------------------------------------
    def new_tree(self):
        n = self.name
        if n == "str":
            return Tree("T")
        if n in ("obj", "obj_falsy", "obj_pop"):
            return Tree("T", calc_data_id=_calc_id)
        if n == "obj_fwd":
            # attributes of the data objects are readable through the node (the objects have a `kind` attribute)
            return Tree("T", calc_data_id=_calc_id, forward_attrs=True)
        if n == "fs_plain":
            return Tree("T")
        if n == "dictwrap":
            return Tree("T")
        if n == "derived":
            return MyTree("T")
        if n in ("typed_str", "typed_str_chk"):
            return TypedTree("T")
        if n in ("typed_obj", "typed_obj_pop"):
            return TypedTree("T", calc_data_id=_calc_id)
        if n == "typed_dictwrap":
            return TypedTree("T")
        if n == "typed_derived":
            return MyTypedTree("T")
        return FileSystemTree("T")

    def cls(self):
        return {"str": Tree, "obj": Tree, "obj_falsy": Tree, "obj_pop": Tree, "obj_fwd": Tree, "fs_plain": Tree, "dictwrap": Tree, "derived": MyTree, "typed_str": TypedTree,
                "typed_obj": TypedTree, "typed_obj_pop": TypedTree, "typed_derived": MyTypedTree, "fs": FileSystemTree, "typed_dictwrap": TypedTree, "typed_str_chk": TypedTree}[self.name]

    def data(self, label):
        if label in self.pool:
            return self.pool[label]
        n = self.name
        if n in ("str", "typed_str", "typed_str_chk"):
            d = Tag(label) if label in TAG_LABELS else label
        elif n == "obj_falsy":
            d = FalsyItem(label, guid="f-" + label)
        elif n in ("obj", "obj_pop", "obj_fwd", "derived", "typed_obj", "typed_obj_pop", "typed_derived"):
            if label in PERSON_LABELS:
                d = Person(label, age=20 + LABELS.index(label), guid="p-" + label)
            else:
                d = Department(label, guid="d-" + label)
        elif n in ("dictwrap", "typed_dictwrap"):
            d = DictWrapper({"name": label, "n": len(label)})
        else:  # fs, fs_plain
            if label in PERSON_LABELS:
                d = FileSystemEntry(label, size=10 * LABELS.index(label), mdate=1.5e9 + LABELS.index(label) + 0.25)
            else:
                d = FileSystemEntry(label, is_dir=True)
        self.pool[label] = d
        return d

    def allows_explicit_ids(self):
        return self.name in ("str", "typed_str", "typed_str_chk")

    def build(self, spec, late_move=None):
        tree = self._build(spec)
        if late_move is not None and not self.typed:
            # registration order != position: the occurrence of some data that was registered LAST is moved in front
            # of an earlier one (typed trees do not support move_to)
            w = walk(tree)
            groups = {}
            for n in w.pre:
                groups.setdefault(n.data_id, []).append(n)
            cands = [g for g in groups.values() if len(g) >= 3]
            if cands:
                g = cands[late_move % len(cands)]
                last, second = g[-1], g[1]
                anchor = second
                while w.parent[id(anchor)] is not None:
                    anchor = w.parent[id(anchor)]
                try:
                    if anchor is not last and not last.is_ancestor_of(anchor):
                        last.move_to(tree, before=anchor)
                except Exception:  # noqa: BLE001  (a refused move is simply not made)
                    pass
        return tree

    def _build(self, spec):
        tree = self.new_tree()
        seq = [0]

        def add_all(parent, items):
            for item in items:
                label = item[0]
                opts = item[2] if len(item) > 2 and item[2] else {}
                kw = {}
                if opts.get("id") is not None and self.allows_explicit_ids():
                    kw["data_id"] = opts["id"]
                if self.typed:
                    kw["kind"] = opts.get("kind") or "child"
                if opts.get("nid") is not None:
                    kw["node_id"] = opts["nid"]  # explicit node ids are not part of the file format; they must not disturb it
                if self.name == "typed_dictwrap":
                    # the data_id of a DictWrapper is the id() of its dict, so a clone whose kind differs from its
                    # first occurrence (written as a full entry) could not be re-united on load by any reader:
                    # here the kind is a function of the label
                    kw["kind"] = DW_KINDS[(LABELS.index(label) if label in LABELS else len(label)) % len(DW_KINDS)]
                if self.typed and len(kw["kind"]) >= 2:
                    seq[0] += 1
                    if seq[0] % 2:
                        kw["kind"] = "".join(list(kw["kind"]))  # an equal kind that is another str object (as after a load)
                n = parent.add(self.data(label), **kw)
                add_all(n, item[1])

        add_all(tree, spec)
        return tree

    # -- mappers ----------------------------------------------------------------------
    def save_mapper(self):
        n = self.name
        if n in ("obj", "typed_obj", "typed_obj_pop", "obj_falsy", "obj_pop", "obj_fwd"):
            return obj_serialize_mapper
        if n == "fs_plain":
            return FileSystemTree.serialize_mapper  # the class mappers used as callbacks on a plain Tree
        if n in ("dictwrap", "typed_dictwrap"):
            return DictWrapper.serialize_mapper
        if n == "typed_str_chk":
            return str_chk_serialize_mapper
        return None

    def load_mapper(self, tree):
        n = self.name
        if n in ("obj", "typed_obj", "obj_falsy", "obj_fwd"):
            return obj_deserialize_mapper
        if n == "obj_pop":
            return obj_deserialize_mapper_consuming
        if n == "typed_obj_pop":
            return typed_deserialize_mapper_consuming
        if n == "fs_plain":
            return FileSystemTree.deserialize_mapper
        if n in ("dictwrap", "typed_dictwrap"):
            return DictWrapper.deserialize_mapper
        if n == "typed_str_chk":
            return str_chk_deserialize_mapper
        if n in ("str", "typed_str"):
            # dict entries occur for explicit ids (and always for typed trees); the base
            # Tree.deserialize_mapper is documented to raise, TypedTree's handles {"str","kind"}
            has_explicit = any(x.data_id != hash(x.data) for x in tree)
            if has_explicit:
                return str_mapper
        return None

    # -- views --------------------------------------------------------------------------
    def data_view(self, d):
        if isinstance(d, Person):
            return ["person", d.name, d.age, d.guid]
        if isinstance(d, Department):
            return ["dept", d.name, d.guid]
        if isinstance(d, FalsyItem):
            return ["falsy", d.name, d.guid]
        if isinstance(d, DictWrapper):
            return ["dw", dict(d._dict)]
        if isinstance(d, FileSystemEntry):
            return ["fs", d.name, bool(d.is_dir), d.size, d.mdate]
        return d

    def id_is_value_derived(self):
        return self.name not in ("dictwrap", "typed_dictwrap", "fs", "fs_plain")

    def view(self, tree):
        w = walk(tree)
        vd = self.id_is_value_derived()

        def one(n):
            # (the kind is a property of typed nodes only: on a plain tree with forward_attrs `node.kind` is the data's)
            return [self.data_view(n.data), n.data_id if vd else None, n.kind if self.typed else None, [one(c) for c in w.kids[id(n)]]]

        groups = {}
        for i, n in enumerate(w.pre):
            groups.setdefault(n.data_id, []).append(i)
        return {"tree": [one(n) for n in w.kids[id(None)]], "partition": sorted(groups.values()), "count": tree.count,
                "unique": tree.count_unique}

    # -- expected payload fields (C12) --------------------------------------------------------
    def mapper_fields(self, node):
        d = node.data
        if isinstance(d, Person):
            return {"type": "person", "name": d.name, "age": d.age}
        if isinstance(d, Department):
            return {"type": "dept", "name": d.name}
        if isinstance(d, FalsyItem):
            return {"type": "falsy", "name": d.name}
        if isinstance(d, DictWrapper):
            return dict(d._dict)
        if isinstance(d, FileSystemEntry):
            return {"n": d.name, "d": True} if d.is_dir else {"n": d.name, "s": d.size, "m": d.mdate}
        return {}

    def possible_keys(self):
        n = self.name
        keys = ["data_id"]
        if n in ("str", "typed_str", "typed_str_chk"):
            keys.append("str")
        if n == "typed_str_chk":
            keys.append("chk")
        if self.typed:
            keys.append("kind")
        if n in ("obj", "obj_pop", "obj_fwd", "derived", "typed_obj", "typed_obj_pop", "typed_derived"):
            keys += ["type", "name", "age"]
        if n == "obj_falsy":
            keys += ["type", "name"]
        if n in ("dictwrap", "typed_dictwrap"):
            keys += ["name", "n"]
        if n in ("fs", "fs_plain"):
            keys += ["n", "s", "m", "d"]
        return keys

    def value_map_candidates(self):
        """keys with string values that a custom value_map may list."""
        n = self.name
        out = []
        if n in ("str", "typed_str", "typed_str_chk"):
            out.append("str")
        if self.typed:
            out.append("kind")
        if n in ("obj", "obj_pop", "obj_fwd", "derived", "typed_obj", "typed_obj_pop", "typed_derived", "obj_falsy"):
            out += ["type", "name"]
        if n in ("obj", "obj_pop", "obj_fwd", "typed_obj", "typed_obj_pop"):
            out += ["age"]  # number-valued
        if n in ("dictwrap", "typed_dictwrap"):
            out += ["name", "n"]  # "n" is number-valued
        if n in ("fs", "fs_plain"):
            out += ["n"]
        return out


# ----------------------------------------------------------------------------------
def resolve_value_map(vm, tree, profile):
    """cfg value: True / False / list of keys -> actual argument."""
    if vm is True or vm is False:
        return vm
    out = {}
    for key in vm:
        vals = []
        for n in tree:
            if key == "str":
                v = n.data if isinstance(n.data, str) else None
            elif key == "kind":
                v = n.kind if profile.typed else None
            else:
                v = profile.mapper_fields(n).get(key)
            if v is not None and v not in vals:
                vals.append(v)
        out[key] = vals
    return out


def with_duplicate(vm, k):
    """the same value_map with one value listed a second time (in front of at least one other value, if possible)"""
    if not isinstance(vm, dict):
        return vm
    out = {}
    for key, vals in vm.items():
        vals = list(vals)
        if len(vals) >= 2:
            i = k % (len(vals) - 1)
            vals.insert(i + 1, vals[i])
        out[key] = vals
    return out


def with_padding(vm, n):
    """a long value list (the caller may list values that do not occur): the indexes in use get 2-4 digits"""
    if not n or not isinstance(vm, dict):
        return vm
    return {k: [f"pad-{i}" for i in range(n)] + list(v) for k, v in vm.items()}


COMPRESSIONS = [False, True, zipfile.ZIP_STORED, zipfile.ZIP_DEFLATED, zipfile.ZIP_BZIP2, zipfile.ZIP_LZMA]


def save_tree(tree, profile, cfg, tmpdir, tag):
    """Save according to cfg; return a zero-arg loader source (path or text)."""
    kw = {}
    if cfg.get("key_map", True) is not True:
        kw["key_map"] = cfg["key_map"]
    vm = resolve_value_map(cfg.get("value_map", True), tree, profile)
    if cfg.get("value_map_dup") is not None:
        vm = with_duplicate(vm, cfg["value_map_dup"])
    vm = with_padding(vm, cfg.get("value_map_pad"))
    if vm is not True:
        kw["value_map"] = vm
    m = profile.save_mapper()
    if m is not None:
        kw["mapper"] = m
    if cfg.get("meta"):
        kw["meta"] = dict(cfg["meta"])
        if cfg.get("presave"):
            # an earlier save() of the same tree that was given the SAME meta dict object and explicit maps:
            # nothing of it may leak into the document written below
            pk = dict(kw)
            pk["key_map"] = {"data_id": "i", "str": "s", "kind": "k"}
            pk["value_map"] = resolve_value_map(["kind"], tree, profile) if profile.typed else {"kind": ["zz"]}
            tree.save(io.StringIO(), **pk)
    target = cfg.get("target", "str")
    # (the file name is the caller's choice: also a ".json" name for a compressed file)
    path = os.path.join(tmpdir, f"t{tag}" + cfg.get("suffix", ".nutree"))
    comp = cfg.get("compression", False)
    if target in ("str", "path"):
        if comp is not False or cfg.get("pass_compression"):
            kw["compression"] = comp
        tree.save(path if target == "str" else Path(path), **kw)
        return ("path", path, kw)
    if target in ("file", "file-ascii"):
        # an open text stream of the caller's choosing: also one that can only encode ASCII
        with open(path, "w", encoding="utf8" if target == "file" else "ascii") as fp:
            tree.save(fp, **kw)
        return (target, path, kw)
    buf = io.StringIO()
    if target == "stringio-offset":
        buf.write(STREAM_PREFIX)  # the stream is the caller's: the tree document starts where the stream stands
    tree.save(buf, **kw)
    return ("text", buf.getvalue()[len(STREAM_PREFIX) if target == "stringio-offset" else 0:], kw)


STREAM_PREFIX = "#application header: 1 tree follows\n"


PRELOAD_DOC = json.dumps({
    "meta": {"$generator": "nutree/0.0", "$format_version": "1.0",
             "$key_map": {"data_id": "name", "str": "type", "kind": "age", "zz": "n", "yy": "s"},
             "$value_map": {"age": ["v0"] * 64, "n": ["v0"] * 64, "name": ["v0"] * 8, "kind": ["v0"] * 8, "s": ["v0"] * 64}},
    "nodes": [],
})


def load_tree(profile, src, src_tree, cfg, file_meta):
    kind, val, _ = src
    if cfg.get("preload"):
        # the caller's file_meta dict was used for loading another (compact, differently mapped) document before:
        # nothing of that header may be applied to the document loaded now
        Tree.load(io.StringIO(PRELOAD_DOC), file_meta=file_meta)
    kw = {"file_meta": file_meta}
    m = profile.load_mapper(src_tree)
    if m is not None:
        kw["mapper"] = m
    cls = profile.cls()
    target = cfg.get("target", "str")
    if kind == "path":
        return cls.load(val if target == "str" else Path(val), **kw)
    if kind in ("file", "file-ascii"):
        with open(val, "r", encoding="utf8" if kind == "file" else "ascii") as fp:
            return cls.load(fp, **kw)
    if target == "stringio-offset":
        stream = io.StringIO(STREAM_PREFIX + val)
        stream.seek(len(STREAM_PREFIX))
        return cls.load(stream, **kw)
    return cls.load(io.StringIO(val), **kw)


def read_document(src):
    """The JSON document that was written (decompressing with zipfile directly)."""
    kind, val, _ = src
    if kind == "text":
        return json.loads(val)
    if zipfile.is_zipfile(val):
        with zipfile.ZipFile(val) as zf:
            names = zf.namelist()
            assert len(names) == 1, names
            return json.loads(zf.read(names[0]).decode("utf8"))
    with open(val, encoding="utf8") as f:
        return json.load(f)


# ---------------------------------------------------------------------------------------
SHORT = ["k1", "k2", "k3", "k4", "k5", "k6", "k7"]


@st.composite
def config(draw, profile_name):
    p = Profile(profile_name)
    cfg = {}
    km = draw(st.sampled_from(["default", "default", "off", "custom"]))
    if profile_name == "fs_plain" and km == "default":
        # the mapper emits the literal keys "s" (size) and a plain Tree's default key_map would map "s" back to
        # "str" on load: FileSystemTree sets DEFAULT_KEY_MAP = {} for that reason, a plain Tree must pass it
        km = "off"
    if km == "off":
        cfg["key_map"] = False
    elif km == "custom":
        keys = draw(st.lists(st.sampled_from(p.possible_keys()), min_size=1, max_size=4, unique=True))
        shorts = draw(st.permutations(SHORT))
        cfg["key_map"] = {k: shorts[i] for i, k in enumerate(keys)}
        if draw(st.sampled_from([0, 0, 1])):
            # an identity entry (as in `{f: f[0] for f in fields}` with a one-letter field): the key keeps its name
            k0 = keys[draw(st.integers(0, len(keys) - 1))]
            cfg["key_map"][k0] = k0
    vm = draw(st.sampled_from(["default", "default", "off", "custom"]))
    if vm == "off":
        cfg["value_map"] = False
    elif vm == "custom":
        cand = p.value_map_candidates()
        cfg["value_map"] = draw(st.lists(st.sampled_from(cand), min_size=1, max_size=len(cand), unique=True)) if cand else True
        if cand and draw(st.sampled_from([0, 0, 1])):
            cfg["value_map_dup"] = draw(st.integers(0, 5))  # the caller's list names one value twice
    cfg["target"] = draw(st.sampled_from(["str", "path", "file", "stringio", "file-ascii", "stringio-offset"]))
    if cfg["target"] in ("str", "path"):
        cfg["compression"] = draw(st.sampled_from(COMPRESSIONS))
        if cfg["compression"] is False and draw(st.booleans()):
            cfg["pass_compression"] = True
    if draw(st.booleans()):
        cfg["meta"] = draw(st.sampled_from([{"foo": "bar"}, {"n": 1, "ünï": "cödé"}, {"x": [1, 2], "y": None}, {"$comment": "mine", "US$": 5}]))
        if draw(st.sampled_from([0, 0, 1])):
            cfg["presave"] = True
    if isinstance(cfg.get("value_map"), list) and draw(st.sampled_from([0, 0, 1])):
        cfg["value_map_pad"] = draw(st.sampled_from([9, 10, 100, 101, 1000]))
    if draw(st.sampled_from([0, 0, 0, 1])):
        cfg["preload"] = True
    if draw(st.sampled_from([0, 0, 1])):
        cfg["suffix"] = draw(st.sampled_from([".json", ".JSON", ".zip", ""]))
    return cfg


@st.composite
def tree_spec(draw, profile_name, max_nodes=14):
    p = Profile(profile_name)
    opts = None
    if p.allows_explicit_ids() or p.typed:
        opts = gen.node_opts(explicit_ids=p.allows_explicit_ids(), kinds=p.typed)
    spec = draw(gen.forest_specs(max_nodes=max_nodes, max_depth=5, max_width=4, alphabet=LABELS, opts=opts, min_nodes=0))
    if p.allows_explicit_ids():
        gen.localize_ids(spec, LABELS)
        gen.fix_sibling_ids(spec)
    if spec and draw(st.sampled_from([0, 0, 1])):
        # explicit node ids on some nodes (inner nodes and leaves)
        flat_ = []

        def collect_(nodes):
            for n in nodes:
                flat_.append(n)
                collect_(n[1])

        collect_(spec)
        k = draw(st.integers(1, min(4, len(flat_))))
        for j, i in enumerate(draw(st.lists(st.integers(0, len(flat_) - 1), min_size=k, max_size=k, unique=True))):
            n = flat_[i]
            o = dict(n[2]) if len(n) > 2 and n[2] else {}
            o["nid"] = 7000 + j
            del n[2:]
            n.append(o)
    if profile_name in ("fs", "fs_plain"):
        # files (person labels) cannot have children: keep the data plausible
        def prune(nodes):
            for n in nodes:
                if n[0] in PERSON_LABELS:
                    n[1] = []
                else:
                    prune(n[1])

        prune(spec)
    elif spec and draw(st.sampled_from([0, 0, 0, 1])):
        # a string that UTF-8 cannot encode (lone surrogate, as produced by os.fsdecode for undecodable file names)
        flat = []

        def collect(nodes):
            for n in nodes:
                flat.append(n)
                collect(n[1])

        collect(spec)
        n = flat[draw(st.integers(0, len(flat) - 1))]
        if not (len(n) > 2 and n[2] and "id" in n[2]):
            n[0] = SURROGATE_LABEL
    return spec
