"""Hypothesis strategies for op histories (DESIGN 2.3): swarm-style profiles,
all node arguments are integers resolved at execution time."""

from __future__ import annotations

from hypothesis import strategies as st

from vlib import gen

# ("a 1": sorts after "a" by name, but before it by repr() - the quote is greater than the space)
LABELS = ["a", "b", "c", "d", "e", "f", "a1", "ä", "a 1"]
# node references are taken modulo the number of nodes; one in four reaches far into a big tree (gen.big_specs)
REF = st.sampled_from([40, 40, 40, 400]).flatmap(lambda hi: st.integers(0, hi))
PREF = st.one_of(st.just(-1), REF)  # parent ref incl. the tree itself
LABEL = st.sampled_from(LABELS)
LABEL_NEW = st.sampled_from(LABELS + LABELS + ["~f"])  # new data of add / set_data ("~f": see build._ODD_INTS)
IDS = st.sampled_from(["X1", "X2", 1000, 1001, 0])
ADD_IDS = st.sampled_from(["X1", "X2", 1000, 1001, 0])  # 0: a legal falsy explicit id (only for new nodes)
KINDS = st.sampled_from(["child", "x", "y"])


def before_json(valid_only=False, invalid_bias=False):
    opts = [st.none(), st.none(), st.just(True), st.just(False), st.tuples(st.just("c"), st.integers(0, 6)).map(list),
            st.tuples(st.just("i"), st.integers(0, 4)).map(list)]
    x = st.tuples(st.just("x"), st.integers(0, 40)).map(list)
    g = st.tuples(st.just("g"), st.integers(0, 10)).map(list)  # a node that has left the tree (stale reference)
    u = st.tuples(st.just("u"), st.integers(0, 1)).map(list)  # a node of an unrelated tree of the other node class
    if invalid_bias:
        return st.one_of(x, g, u, st.one_of(*opts))
    if not valid_only:
        opts.append(x)
        opts.append(g)
        opts.append(u)
    return st.one_of(*opts)


@st.composite
def new_opts(draw, typed, explicit_ids=True, fresh=False):
    o = {}
    if explicit_ids and draw(st.sampled_from([0, 0, 0, 1])):
        o["id"] = draw(ADD_IDS)
    if typed and draw(st.booleans()):
        o["kind"] = draw(KINDS)
    if fresh and draw(st.sampled_from([0, 0, 1])):
        o["fresh"] = True
    if draw(st.sampled_from([0] * (3 if typed else 6) + [1])):
        # (node_id is documented as str|int and stored as int: "5001" and 5001 are the same id)
        o["nid"] = draw(st.sampled_from([5000, 5001, 5002, 5003, "5001", "5002"])) if draw(st.booleans()) else draw(st.integers(5000, 5020))
    return o


def _interesting_refs(spec, with_children=False):
    """pre-order indexes of the children at notable positions of every long child list"""
    out = []
    counter = [0]

    def rec(nodes):
        L = len(nodes)
        want = {p for p in (0, 1, 2, L - 1, L - 2, L // 2, L - 16, L - 17, L - 32, L - 33, L - 64, L - 65, L - 128, L - 129, L - 256, L - 257) if 0 <= p < L} if L > 10 else set()
        for i, n in enumerate(nodes):
            if i in want and (n[1] or not with_children):
                out.append(counter[0])
            counter[0] += 1
            rec(n[1])

    rec(spec)
    return sorted(set(out)) or [0]


def op_strategies(typed=False, explicit_ids=True, fresh=False, valid_before_only=False, invalid_bias=False, ref=None, ref_inner=None):
    REF = ref if ref is not None else globals()["REF"]
    SKIP0 = st.one_of(LABEL, REF) if ref_inner is None else st.one_of(LABEL, REF, ref_inner, ref_inner)
    PREF = st.one_of(st.just(-1), REF)
    B = before_json(valid_before_only, invalid_bias)
    O = new_opts(typed, explicit_ids, fresh)
    tri = st.sampled_from([None, True, False])
    return {
        "add": st.tuples(st.just("add"), PREF, LABEL_NEW, B, O).map(list),
        "append_child": st.tuples(st.just("append_child"), REF, LABEL, O).map(list),
        "prepend_child": st.tuples(st.just("prepend_child"), REF, LABEL, O).map(list),
        "prepend_sibling": st.tuples(st.just("prepend_sibling"), REF, LABEL, O).map(list),
        "append_sibling": st.tuples(st.just("append_sibling"), REF, LABEL, O).map(list),
        "add_node": (st.tuples(st.just("add_node"), PREF, st.sampled_from([0, 0, 1]), REF, tri, B, st.one_of(st.none(), KINDS)).map(list) if typed
                     else st.tuples(st.just("add_node"), PREF, st.sampled_from([0, 0, 1]), REF, tri, B).map(list)),
        "copy_to": st.tuples(st.just("copy_to"), REF, PREF, st.sampled_from([True, True, False]), B, st.booleans()).map(list),
        "add_node_ids": st.tuples(st.just("add_node_ids"), PREF, REF, st.sampled_from(["data_id", "node_id"]), st.booleans()).map(list),
        "add_tree": st.tuples(st.just("add_tree"), PREF, B, tri).map(list),
        # the shortcut methods with a whole tree as child
        "shortcut_tree": st.tuples(st.just("shortcut_tree"), st.sampled_from(["append_child", "prepend_child", "prepend_sibling", "append_sibling"]), REF, tri).map(list),
        # the tree copied into itself (below one of its own nodes: valid; at top level: collides with itself)
        "add_own_tree": st.tuples(st.just("add_own_tree"), PREF, B, tri).map(list),
        "own_copy_to": st.tuples(st.just("own_copy_to"), PREF, tri).map(list),
        # target -2 = the second tree, -3 = a node of the second tree (cross-tree moves: refused), one time in five
        "move": st.tuples(st.just("move"), REF, st.tuples(st.integers(-1, 40), st.sampled_from([0] * 8 + [-2, -3])).map(lambda t: t[1] if t[1] else t[0]), B).map(list),
        "remove": st.tuples(st.just("remove"), REF, st.sampled_from([False, False, True]), st.sampled_from([False, False, True])).map(list),
        "remove_children": st.tuples(st.just("remove_children"), REF).map(list),
        "clear": st.just(["clear"]),
        "del": st.tuples(st.just("del"), REF, st.sampled_from(["data", "data", "data_id", "node_id", "absent"])).map(list),
        "sort": st.tuples(st.just("sort"), st.integers(-1, 40), st.sampled_from(["default", "name", "rev-name", "data_id", "len"]), st.booleans(), tri).map(list),
        "set_data": st.tuples(st.just("set_data"), REF, st.one_of(st.none(), LABEL_NEW, LABEL_NEW, st.just("=")), st.one_of(st.none(), st.none(), IDS, st.just("=")), tri,
                              st.just(bool(fresh)) if not fresh else st.booleans()).map(list),
        "rename": st.tuples(st.just("rename"), REF, LABEL).map(list),
        "meta": st.tuples(st.just("meta"), REF, st.sampled_from(["set", "set", "clear", "update", "replace"]),
                          st.one_of(st.none(), st.sampled_from(["k1", "k2"])), st.one_of(st.none(), st.integers(1, 3), st.dictionaries(st.sampled_from(["k1", "k2", "k3"]), st.integers(1, 3), max_size=2))).map(_fix_meta),
        # third element: labels answered with SkipBranch(and_self=False) (the node stays, its descendants go)
        "filter": st.tuples(st.just("filter"), st.lists(LABEL, max_size=5, unique=True), st.lists(SKIP0, max_size=2, unique=True)).map(list),
    }


def _fix_meta(t):
    op = list(t)
    sub, key, value = op[2], op[3], op[4]
    if sub == "set":
        if key is None:
            op[3] = "k1"
        if isinstance(value, dict):
            op[4] = 1
    elif sub == "clear":
        op[4] = None
    else:
        if not isinstance(value, dict):
            op[4] = {"k1": 1} if value else {}
        op[3] = None
    return op


ALL_KINDS = ["add", "append_child", "prepend_child", "prepend_sibling", "append_sibling", "add_node", "copy_to",
             "add_tree", "add_node_ids", "shortcut_tree", "add_own_tree", "own_copy_to", "move", "remove", "remove_children", "clear", "del", "sort", "set_data", "rename", "meta", "filter"]

PROFILES = {
    "all": ALL_KINDS,
    "structure": ["add", "append_child", "prepend_sibling", "add_node", "copy_to", "move", "remove", "remove", "move"],
    "move-remove": ["move", "move", "remove", "add", "add_node"],
    "clones": ["add", "add_node", "add_node", "copy_to", "remove", "set_data", "rename", "del"],
    "rekey": ["add", "add_node", "set_data", "set_data", "rename", "remove", "move"],
    "insert": ["add", "add", "append_child", "prepend_child", "prepend_sibling", "append_sibling", "sort", "meta"],
    "bulk": ["add", "add_tree", "copy_to", "clear", "remove_children", "filter", "sort", "add_node", "add_own_tree", "own_copy_to", "shortcut_tree"],
}


@st.composite
def histories(draw, typed=False, max_ops=40, explicit_ids=True, fresh=False, kinds=None, max_nodes=15, valid_before_only=False,
              eq_siblings=True, invalid_bias=False, min_nodes=0, min_ops=None, big=None):
    opts = gen.node_opts(explicit_ids=explicit_ids, kinds=typed)
    spec = draw(gen.forest_specs(max_nodes=max_nodes, max_depth=5, max_width=4, alphabet=LABELS, opts=opts, min_nodes=min_nodes, big=big))
    if explicit_ids:
        gen.fix_sibling_ids(spec)
    spec2 = draw(gen.forest_specs(max_nodes=6, max_depth=3, max_width=3, alphabet=LABELS, opts=gen.node_opts(explicit_ids=False, kinds=typed)))
    if spec and spec2 and draw(st.sampled_from([0, 0, 1])):
        # two trees alive whose nodes carry the SAME explicit node_ids (an id is unique per tree only)
        for k_, (a_, b_) in enumerate(zip(spec[:2], spec2[:2])):
            for n_ in (a_, b_):
                o_ = dict(n_[2]) if len(n_) > 2 and n_[2] else {}
                o_["nid"] = 5000 + k_
                del n_[2:]
                n_.append(o_)
    directed = []
    if len(spec) > 10 and spec[0][1] and spec[1][1] and all(n[1] and n[1][0][0] == spec[0][1][0][0] for n in spec[:12]) and draw(st.booleans()):
        # a big "clones" forest (every top-level node holds a clone of one data object as its first child): the clone
        # that was registered first leaves, then the same data is added again - below the tree, below a parent whose
        # (last) child already carries it (must be refused), and in front of such a child
        lab = spec[0][1][0][0]
        directed = [["remove", 1, False, False], ["add", -1, lab, None, {}], ["add", 2, lab, None, {}], ["add", 4, lab, ["c", 0], {}]]
    ref = None
    n_nodes = gen.spec_nodes(spec)
    if n_nodes > 40:
        # a big tree: references aim at positions where a chunked or bulk code path would change its behaviour
        ref = st.one_of(st.sampled_from(_interesting_refs(spec)), st.integers(0, n_nodes - 1), st.integers(0, 40))
    strat = op_strategies(typed, explicit_ids, fresh, valid_before_only, invalid_bias, ref=ref,
                          ref_inner=st.sampled_from(_interesting_refs(spec, with_children=True)) if ref is not None else None)
    if kinds is None:
        prof = draw(st.sampled_from(sorted(PROFILES)))
        kinds = PROFILES[prof]
    else:
        prof = "custom"
    if typed:
        kinds = [k for k in kinds]  # typed trees refuse move; still generated (must be refused)
    if len(set(kinds)) != len(kinds):
        # repeated kinds are weights (one_of would not honour them)
        one = st.sampled_from(list(kinds)).flatmap(lambda k: strat[k])
    else:
        one = st.one_of(*[strat[k] for k in kinds])
    if min_ops is None:
        min_ops = draw(st.sampled_from([1, max(1, max_ops // 8), max(1, max_ops // 3)]))
    ops = directed + draw(st.lists(one, min_size=min_ops, max_size=max_ops))
    return {"spec": spec, "spec2": spec2, "typed": typed, "ops": ops, "profile": prof}
