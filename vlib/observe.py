"""Observation of a real tree through the public API only (DESIGN 2.2).

The structural walker never uses nutree's iterators: it follows
``tree.children`` / ``node.children`` with an identity-visited set and a node
cap, so it terminates on shared nodes and cycles and reports them.
"""

from __future__ import annotations

MAX_NODES = 5000


def kind_of(n):
    """the kind of a typed node; None for plain nodes (where `node.kind` may be a forwarded attribute of the data)"""
    from nutree.typed_tree import TypedNode

    return n.kind if isinstance(n, TypedNode) else None


class Walk:
    __slots__ = ("pre", "parent", "kids", "problems", "depth")

    def __init__(self):
        self.pre = []  # nodes, pre-order
        self.parent = {}  # id(node) -> parent node or None (top level)
        self.kids = {}  # id(node) -> list of child nodes ; id(None) for top level
        self.depth = {}  # id(node) -> 1-based depth
        self.problems = []  # structural problems found while walking


def walk(tree, start=None) -> Walk:
    """Walk from tree.children (or from start.children)."""
    w = Walk()
    seen = set()
    top = list(tree.children) if start is None else list(start.children)
    w.kids[id(None)] = top
    stack = [(n, None, 1) for n in reversed(top)]
    while stack:
        n, p, d = stack.pop()
        if id(n) in seen:
            w.problems.append(("shared-or-cycle", repr(n)))
            continue
        seen.add(id(n))
        if len(seen) > MAX_NODES:
            w.problems.append(("too-many-nodes", len(seen)))
            break
        w.pre.append(n)
        w.parent[id(n)] = p
        w.depth[id(n)] = d
        try:
            kids = list(n.children)
        except Exception as e:  # noqa: BLE001
            w.problems.append(("children-raises", repr(e)))
            kids = []
        w.kids[id(n)] = kids
        for c in reversed(kids):
            stack.append((c, n, d + 1))
    return w


def shape(tree, label=None, start=None) -> list:
    """Nested [label, [children]] (spec without opts)."""
    label = label or (lambda n: n.data)

    def rec(nodes, depth):
        if depth > 200:
            return ["<too deep>"]
        return [[label(n), rec(list(n.children), depth + 1)] for n in nodes]

    top = tree.children if start is None else start.children
    return rec(list(top), 0)


class Uids:
    """Harness-assigned identity numbers for node objects (strong refs kept,
    so an address is never recycled while the case runs)."""

    def __init__(self):
        self._by_id = {}
        self._keep = []

    def of(self, node) -> int:
        u = self._by_id.get(id(node))
        if u is None:
            u = len(self._keep)
            self._by_id[id(node)] = u
            self._keep.append(node)
        return u

    def known(self, node) -> bool:
        return id(node) in self._by_id

    def all_nodes(self):
        return list(self._keep)


def snapshot(tree, uids: Uids, label=None, start=None):
    """Full observable state: nested
    [uid, label, id(data), data_id, kind, meta-copy, [children]]."""
    label = label or (lambda n: n.data if isinstance(n.data, str) else repr(n.data))

    def one(n, depth):
        if depth > 200:
            return ["<too deep>"]
        m = n.meta
        return [
            uids.of(n),
            label(n),
            id(n.data),
            n.data_id,
            kind_of(n),
            dict(m) if m else None,
            [one(c, depth + 1) for c in n.children],
        ]

    top = tree.children if start is None else start.children
    return [one(n, 0) for n in top]


def strip_ident(snap):
    """Snapshot without node identity / data identity (for comparing copies)."""
    return [[s[1], s[3], s[4], s[5], strip_ident(s[6])] for s in snap]


def index_probe(tree, w: Walk | None = None):
    """Index-side view: count, count_unique, find_all per data_id, node ids."""
    w = w or walk(tree)
    groups = {}
    for n in w.pre:
        groups.setdefault(n.data_id, []).append(id(n))
    probe = {"count": tree.count, "len": len(tree), "unique": tree.count_unique, "by_id": {}, "nid": {}}
    for did, ids in groups.items():
        probe["by_id"][repr(did)] = sorted(id(x) for x in tree.find_all(data_id=did))
    for n in w.pre:
        f = tree.find_first(node_id=n.node_id)
        probe["nid"][id(n)] = id(f) if f is not None else None
    return probe
