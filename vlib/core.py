"""Runner for the property checks: tiers, seeds, sharding, bucketing, replay,
known findings, evidence.  See DESIGN.md section 1.

A property module (checks/cNN_*.py) exposes

    ID, LEVEL, RULE, ASSUMPTIONS, PARTS = [Part(...), ...]

Every Part has a pure function ``run(case, rec)`` over a JSON-able ``case``.
Cases come from a committed replay file, from a bounded-exhaustive enumerator
(``enum``) or from a Hypothesis strategy (``strategy``).  Oracle failures are
*recorded* (``rec.fail(bucket, detail)``), never raised, so that one shallow
defect does not end the search; every new bucket is shrunk afterwards.
"""

from __future__ import annotations

import hashlib
import json
import multiprocessing
import os
import signal
import sys
import time
import traceback
from collections import Counter
from typing import Any, Callable, Iterable, Optional

VERIF = os.path.dirname(os.path.dirname(os.path.abspath(__file__)))
NUTREE_SRC = os.path.abspath(os.environ.get("NUTREE_SRC", "/repo"))
if NUTREE_SRC not in sys.path[:1]:
    sys.path.insert(0, NUTREE_SRC)
if VERIF not in sys.path:
    sys.path.insert(1, VERIF)

import hypothesis  # noqa: E402
from hypothesis import HealthCheck, Phase, given, settings  # noqa: E402

CASE_WATCHDOG_S = int(os.environ.get("VERIF_CASE_WATCHDOG", "120"))
NPROC = int(os.environ.get("VERIF_NPROC", "0")) or min(16, os.cpu_count() or 1)


class Hang(Exception):
    pass


class HarnessError(Exception):
    pass


class _StopShard(Exception):
    pass


def _deadline(tier: str) -> float:
    dflt = "600" if tier == "quick" else "5400"
    return _T0 + float(os.environ.get("VERIF_WALL_BUDGET", dflt))


_T0 = time.time()


def cjson(obj) -> str:
    return json.dumps(obj, sort_keys=True, separators=(",", ":"), default=repr)


def digest8(obj) -> bytes:
    return hashlib.blake2b(cjson(obj).encode(), digest_size=8).digest()


# ----------------------------------------------------------------------------
class Rec:
    """Per-case recorder handed to Part.run."""

    __slots__ = ("fails", "classes", "nontrivial", "excluded", "active", "evals", "stop_shard")

    def __init__(self, active: frozenset):
        self.fails: list[tuple[str, Any]] = []
        self.classes: Counter = Counter()
        self.nontrivial = False
        self.excluded: Counter = Counter()
        self.active = active
        self.evals = 0  # extra oracle evaluations inside one case (optional)
        self.stop_shard = False  # set by a check after a catastrophic failure (deadlock ...): do not go on

    def fail(self, bucket: str, detail: Any = None) -> None:
        if len(self.fails) >= 50:
            return
        if detail is not None:
            try:
                txt = cjson(detail)
            except Exception:  # noqa: BLE001  (e.g. circular structures returned by the code under test)
                txt = repr(detail)
                detail = txt[:1500]
            if len(txt) > 1500:
                detail = txt[:1500] + "...<truncated>"
        self.fails.append((bucket, detail))

    def cls(self, key: str, n: int = 1) -> None:
        self.classes[key] += n

    def nt(self, flag: bool = True) -> None:
        if flag:
            self.nontrivial = True

    def excl(self, finding: str, n: int = 1) -> None:
        self.excluded[finding] += n

    def known(self, finding: str) -> bool:
        """True iff `finding` is listed in known_findings.json AND its witness
        still fails on the code under test (then its trigger is excluded)."""
        return finding in self.active

    @property
    def failed(self) -> bool:
        return bool(self.fails)


class Part:
    def __init__(
        self,
        name: str,
        run: Callable[[Any, Rec], None],
        *,
        strategy: Optional[Callable[[str], Any]] = None,
        enum: Optional[Callable[[str], Iterable]] = None,
        n: Optional[dict] = None,
        enum_note: Optional[Callable[[str], str]] = None,
        watchdog: Optional[int] = None,
    ):
        self.name = name
        self.run = run
        self.strategy = strategy
        self.enum = enum
        self.n = n or {"quick": 200, "thorough": 20000}
        self.enum_note = enum_note
        self.watchdog = watchdog  # seconds per case (default CASE_WATCHDOG_S); for cases that loop internally


def nested_part(check_id: str, parts: list, env: dict, name: str, why: str) -> "Part":
    """A part that runs the given parts of the same check once more (quick tier, same VERIF_SEED) in a child
    interpreter with a different process environment (interpreter flags, locale, time zone, stream encodings):
    nutree is a library - it does not choose the environment of the process that uses it."""
    import subprocess
    import tempfile

    marker = "VERIF_NESTED"

    def enum(tier):
        yield {"parts": list(parts), "environment": dict(env)}

    def run(case, rec):
        if os.environ.get(marker):
            rec.cls("already-nested")
            return
        rec.nt(True)
        # the child's replay files (single cases) are kept below the parent's output directory: replay one of them with
        # the same environment variables set, e.g. `PYTHONOPTIMIZE=1 ./check <ID> --replay <file>`
        nested_out = os.path.join(os.environ.get("VERIF_OUT_DIR") or os.path.join(VERIF, "out"), "nested", name)
        with tempfile.TemporaryDirectory(prefix="verif_nested_") as tmp:
            e = dict(os.environ, VERIF_EVIDENCE_DIR=os.path.join(tmp, "ev"), VERIF_OUT_DIR=nested_out, VERIF_QUICK_PROCS="2", VERIF_TIER="quick")
            e[marker] = "1"
            e.update(case["environment"])
            p = subprocess.run([sys.executable, os.path.join(VERIF, "check"), check_id, "--tier", "quick", "--parts", ",".join(case["parts"]), "--no-shrink"],
                               env=e, capture_output=True, timeout=1500)
        out = p.stdout.decode("utf8", "replace")
        lines = out.splitlines()
        fails = [ln for ln in lines if ln.startswith("FAIL property=")]
        envtxt = " ".join(f"{k}={v}" for k, v in sorted(case["environment"].items()))
        for ln in fails[:5]:
            bucket = ln.split("bucket=", 1)[1].split(" ", 1)[0] if "bucket=" in ln else "?"
            rec.fail(f"{name}:" + bucket, {"single_case_replays": f"{envtxt} ./check {check_id} --replay {nested_out}/violations/{check_id}/<bucket>.json", "child": ln[:500]})
        summary = [ln for ln in lines if " tier=quick " in ln and "cases=" in ln]
        if p.returncode not in (0, 1) or not summary or (p.returncode == 1 and not fails):
            raise HarnessError(f"nested run with {case['environment']} failed (exit {p.returncode}): {(out + p.stderr.decode('utf8', 'replace'))[-800:]}")
        try:
            rec.evals += int(summary[-1].split("cases=", 1)[1].split(" ", 1)[0])
        except ValueError:
            pass

    return Part(name, run, enum=enum, watchdog=1600, enum_note=lambda tier: f"one nested run of the listed parts (quick tier) with {env}: {why}")


def optimized_part(check_id: str, parts: list, name: str = "python-O") -> "Part":
    """the listed parts once more with `assert` statements stripped from the code under test (python -O): an assert
    that carries a side effect, or that is the only thing refusing a bad argument, behaves differently there"""
    return nested_part(check_id, parts, {"PYTHONOPTIMIZE": "1"}, name, "asserts are stripped")


# ----------------------------------------------------------------------------
class Agg:
    """Mergeable aggregate of many cases."""

    def __init__(self):
        self.evaluations = 0
        self.inner_evals = 0
        self.digests: set[bytes] = set()
        self.classes: Counter = Counter()
        self.excluded: Counter = Counter()
        self.samples: list = []
        self.buckets: dict[str, dict] = {}
        self.harness_errors: list[str] = []
        self.enum_total = 0
        self.fatal = False  # catastrophic failure seen: stop this shard
        self.inconclusive = 0  # shards stopped by the wall budget

    def add_case(self, part: Part, case, rec: Rec, origin: dict) -> None:
        self.evaluations += 1
        self.inner_evals += rec.evals
        for k, v in rec.classes.items():
            self.classes[f"{part.name}:{k}"] += v
        for k, v in rec.excluded.items():
            self.excluded[k] += v
        if rec.nontrivial:
            d = digest8([part.name, case])
            if d not in self.digests:
                self.digests.add(d)
                if len(self.samples) < 2:
                    self.samples.append({"part": part.name, "case": case})
        for bucket, detail in rec.fails:
            key = f"{part.name}/{bucket}"
            size = len(cjson(case))
            b = self.buckets.get(key)
            if b is None:
                self.buckets[key] = {
                    "count": 1,
                    "size": size,
                    "case": case,
                    "detail": detail,
                    "part": part.name,
                    "bucket": bucket,
                    "origin": origin,
                }
            else:
                b["count"] += 1
                if size < b["size"]:
                    b.update(size=size, case=case, detail=detail, origin=origin)

    def merge(self, other: "Agg") -> None:
        self.evaluations += other.evaluations
        self.inner_evals += other.inner_evals
        self.digests |= other.digests
        self.classes.update(other.classes)
        self.excluded.update(other.excluded)
        for s in other.samples:
            if len(self.samples) < 6:
                self.samples.append(s)
        for key, ob in other.buckets.items():
            b = self.buckets.get(key)
            if b is None:
                self.buckets[key] = ob
            else:
                cnt = b["count"] + ob["count"]
                if ob["size"] < b["size"]:
                    self.buckets[key] = ob
                self.buckets[key]["count"] = cnt
        self.harness_errors.extend(other.harness_errors)
        self.enum_total += other.enum_total
        self.inconclusive += other.inconclusive


def _alarm(signum, frame):
    raise Hang(f"case exceeded the {CASE_WATCHDOG_S}s watchdog")


def _classify_exception(e: BaseException) -> tuple[bool, str]:
    """(is_library_failure, bucket).  An escaping exception is attributed to
    the library iff some frame of its traceback lies inside the code under
    test; otherwise it is a harness error."""
    tb = traceback.extract_tb(e.__traceback__)
    lib = [f for f in tb if os.path.abspath(f.filename).startswith(NUTREE_SRC + os.sep)]
    if isinstance(e, Hang):
        return True, "hang"
    if lib:
        f = lib[-1]
        return True, f"exc:{type(e).__name__}@{os.path.basename(f.filename)}:{f.name}"
    return False, f"harness:{type(e).__name__}"


def run_one(part: Part, case, active: frozenset, agg: Optional[Agg], origin: dict) -> Rec:
    rec = Rec(active)
    _note_progress(part, case)
    old = signal.signal(signal.SIGALRM, _alarm)
    signal.alarm(part.watchdog or CASE_WATCHDOG_S)
    try:
        try:
            part.run(case, rec)
        finally:
            signal.alarm(0)
            signal.signal(signal.SIGALRM, old)
    except Exception as e:  # noqa: BLE001
        is_lib, bucket = _classify_exception(e)
        if is_lib:
            rec.fail(bucket, "".join(traceback.format_exception_only(type(e), e)).strip()[:300])
            if agg is not None and isinstance(e, (Hang, MemoryError, RecursionError)):
                agg.fatal = True  # do not drive a library in this state any further
        else:
            msg = "".join(traceback.format_exception(type(e), e, e.__traceback__))
            if agg is not None:
                agg.harness_errors.append(f"part={part.name} case={cjson(case)[:400]}\n{msg}")
            else:
                raise
    if agg is not None:
        agg.add_case(part, case, rec, origin)
        if rec.stop_shard and rec.fails:
            agg.fatal = True
    return rec


# ----------------------------------------------------------------------------
_HC = [HealthCheck.too_slow, HealthCheck.data_too_large, HealthCheck.large_base_example]


def _hyp_settings(n: int, shrink: bool):
    phases = [Phase.generate, Phase.shrink] if shrink else [Phase.generate]
    return settings(
        max_examples=n,
        database=None,
        deadline=None,
        derandomize=False,
        report_multiple_bugs=False,
        suppress_health_check=_HC,
        phases=phases,
        print_blob=False,
    )


def _load_module(modname: str):
    import importlib

    return importlib.import_module(modname)


def _part_of(mod, name: str) -> Part:
    for p in mod.PARTS:
        if p.name == name:
            return p
    raise HarnessError(f"no part {name!r} in {mod.__name__}")


def _hyp_shard(args) -> Agg:
    modname, partname, tier, hseed, n, active = args
    mod = _load_module(modname)
    part = _part_of(mod, partname)
    agg = Agg()
    origin = {"kind": "hypothesis", "hseed": hseed, "n": n}
    strat = part.strategy(tier)

    @_hyp_settings(n, shrink=False)
    @hypothesis.seed(hseed)
    @given(strat)
    def t(case):
        if agg.fatal:
            raise _StopShard
        if time.time() > deadline:
            agg.inconclusive = 1
            raise _StopShard
        run_one(part, case, active, agg, origin)

    deadline = _deadline(tier)
    try:
        t()
    except _StopShard:
        pass
    except Exception as e:  # noqa: BLE001  (health check, generator bug)
        agg.harness_errors.append(
            f"part={partname} hypothesis: "
            + "".join(traceback.format_exception(type(e), e, e.__traceback__))[-1500:]
        )
    return agg


def _enum_shard(args) -> Agg:
    modname, partname, tier, shard, nshards, active = args
    mod = _load_module(modname)
    part = _part_of(mod, partname)
    agg = Agg()
    origin = {"kind": "enum"}
    deadline = _deadline(tier)
    for i, case in enumerate(part.enum(tier)):
        if i % nshards != shard:
            continue
        if agg.fatal:
            break
        if time.time() > deadline:
            agg.inconclusive = 1
            break
        run_one(part, case, active, agg, origin)
        agg.enum_total += 1
    return agg


def shrink_bucket(mod, part: Part, tier: str, key: str, info: dict, active: frozenset) -> dict:
    """Re-run the Hypothesis shard in which `key` was first seen, this time
    failing only for that bucket, and let Hypothesis shrink it."""
    origin = info.get("origin") or {}
    if origin.get("kind") != "hypothesis" or part.strategy is None:
        return info
    best = {"case": None}
    bucket = info["bucket"]

    class _Hit(Exception):
        pass

    @_hyp_settings(origin["n"], shrink=True)
    @hypothesis.seed(origin["hseed"])
    @given(part.strategy(tier))
    def t(case):
        rec = run_one(part, case, active, None, origin)
        for b, detail in rec.fails:
            if b == bucket:
                best["case"] = case
                best["detail"] = detail
                raise _Hit(b)

    try:
        t()
    except _Hit:
        pass
    except Exception:  # noqa: BLE001
        return info
    if best["case"] is not None and len(cjson(best["case"])) <= info["size"]:
        info = dict(info, case=best["case"], detail=best.get("detail"), shrunk=True)
    return info


# ----------------------------------------------------------------------------
_PROGRESS = {"fd": None}


def _note_progress(part: Part, case) -> None:
    fd = _PROGRESS["fd"]
    if fd is not None:
        data = cjson({"part": part.name, "case": case}).encode()
        os.lseek(fd, 0, os.SEEK_SET)
        os.write(fd, data)
        os.ftruncate(fd, len(data))


def _limit_memory(gb_env: str, default: str) -> None:
    try:
        import resource

        lim = int(float(os.environ.get(gb_env, default)) * (1 << 30))
        resource.setrlimit(resource.RLIMIT_AS, (lim, lim))
    except Exception:  # noqa: BLE001
        pass


def _shrink_job(job):
    modname, partname, tier, key, info, active = job
    mod = _load_module(modname)
    return shrink_bucket(mod, _part_of(mod, partname), tier, key, info, active)


def _job_main(kind, job, conn, progress_path):
    _limit_memory("VERIF_WORKER_MEM_GB", "2")
    _PROGRESS["fd"] = os.open(progress_path, os.O_RDWR | os.O_CREAT, 0o600)
    try:
        if kind == "enum":
            agg = _enum_shard(job)
        elif kind == "hyp":
            agg = _hyp_shard(job)
        else:
            agg = _shrink_job(job)
    except BaseException as e:  # noqa: BLE001
        agg = Agg()
        agg.harness_errors.append("".join(traceback.format_exception(type(e), e, e.__traceback__))[-2000:])
    conn.send(agg)
    conn.close()


def run_jobs(jobs, nprocs: int):
    """Run every job in its own forked process, at most nprocs at a time.  A
    worker that dies (OOM kill, stack overflow in C code, ...) is reported as a
    failure of the case it was working on instead of hanging the run."""
    import tempfile
    from multiprocessing.connection import wait

    if not jobs:
        return
    if os.environ.get("VERIF_NO_FORK"):
        for kind, job in jobs:
            yield {"enum": _enum_shard, "hyp": _hyp_shard, "shrink": _shrink_job}[kind](job)
        return
    ctx = multiprocessing.get_context("fork")
    tmpdir = tempfile.mkdtemp(prefix="verif_progress_")
    pending = list(enumerate(jobs))
    running = {}  # sentinel -> (proc, conn, idx, kind, job)
    try:
        while pending or running:
            while pending and len(running) < nprocs:
                idx, (kind, job) = pending.pop(0)
                rd, wr = ctx.Pipe(duplex=False)
                ppath = os.path.join(tmpdir, f"p{idx}")
                proc = ctx.Process(target=_job_main, args=(kind, job, wr, ppath))
                proc.start()
                wr.close()
                running[proc.sentinel] = (proc, rd, idx, kind, job, ppath)
            ready = wait([v[1] for v in running.values()] + list(running.keys()), timeout=5)
            for sent in list(running.keys()):
                proc, rd, idx, kind, job, ppath = running[sent]
                got = None
                if rd in ready or rd.poll(0):
                    try:
                        got = rd.recv()
                    except (EOFError, OSError):
                        got = None
                    proc.join()
                elif sent in ready or not proc.is_alive():
                    proc.join()
                    if rd.poll(0):
                        try:
                            got = rd.recv()
                        except (EOFError, OSError):
                            got = None
                else:
                    continue
                del running[sent]
                rd.close()
                if got is None:
                    agg = Agg()
                    try:
                        with open(ppath) as f:
                            last = json.load(f)
                    except Exception:  # noqa: BLE001
                        last = None
                    if last is None:
                        agg.harness_errors.append(f"worker for {kind} job {job[:3]} died (exit {proc.exitcode}) before its first case")
                    else:
                        partname = last["part"]
                        agg.evaluations = 1
                        agg.buckets[f"{partname}/worker-died"] = {
                            "count": 1, "size": len(cjson(last["case"])), "case": last["case"],
                            "detail": f"worker process died (exit code {proc.exitcode}: killed / out of memory / crash) while running this case",
                            "part": partname, "bucket": "worker-died", "origin": {"kind": "died"},
                        }
                    yield agg
                else:
                    yield got
    finally:
        for proc, *_ in running.values():
            proc.kill()
        import shutil

        shutil.rmtree(tmpdir, ignore_errors=True)


# ----------------------------------------------------------------------------
def load_known(prop_id: str) -> list[dict]:
    path = os.path.join(VERIF, "known_findings.json")
    if not os.path.exists(path):
        return []
    with open(path) as f:
        doc = json.load(f)
    return [e for e in doc.get("entries", []) if e.get("property") == prop_id]


def main(modname: str, argv: list[str]) -> int:
    import argparse

    ap = argparse.ArgumentParser()
    ap.add_argument("--tier", default=os.environ.get("VERIF_TIER", "quick"))
    ap.add_argument("--replay")
    ap.add_argument("--parts", help="comma separated subset of parts (debugging)")
    ap.add_argument("--no-shrink", action="store_true")
    a = ap.parse_args(argv)
    tier = a.tier if a.tier in ("quick", "thorough") else "quick"
    os.environ["VERIF_TIER"] = tier  # (generators thin out their most expensive size class in the thorough tier)
    _limit_memory("VERIF_MAIN_MEM_GB", "6")
    seed = int(os.environ.get("VERIF_SEED", "1") or 1)
    t0 = time.time()
    mod = _load_module(modname)
    pid = mod.ID

    import nutree

    src = os.path.abspath(os.path.dirname(nutree.__file__))
    if not src.startswith(NUTREE_SRC):
        print(f"HARNESS-ERROR nutree imported from {src}, expected {NUTREE_SRC}")
        return 2

    # --- single replay --------------------------------------------------------
    if a.replay:
        with open(a.replay) as f:
            doc = json.load(f)
        part = _part_of(mod, doc["part"])
        rec = run_one(part, doc["case"], frozenset(), None, {"kind": "replay"})
        for b, d in rec.fails:
            print(f"FAIL part={part.name} bucket={b} detail={cjson(d)[:600]}")
        if rec.fails:
            print(f"VIOLATION property={pid} replay={a.replay}")
            return 1
        print("replay passed")
        return 0

    violations: list[tuple[str, dict]] = []
    known_lines: list[str] = []
    active: set[str] = set()

    # --- 1. known findings / fixed entries -------------------------------------
    entries = load_known(pid)
    for e in entries:
        if e["status"] != "known":
            continue
        part = _part_of(mod, e["part"])
        rec = run_one(part, e["case"], frozenset(), None, {"kind": "witness"})
        got = {b for b, _ in rec.fails}
        if e["bucket"] in got:
            known_lines.append(f"KNOWN-FINDING: property={pid} {e['id']} {e['what']}")
            active.add(e["id"])
        # witness passes: defect gone, exclusion stays off -> full domain searched
    for e in entries:
        if e["status"] == "known":
            # with its own exclusion armed the witness must be clean: anything
            # else that fails on it is a different violation
            if e["id"] in active:
                part = _part_of(mod, e["part"])
                rec = run_one(part, e["case"], frozenset(active), None, {"kind": "witness"})
                for b, d in rec.fails:
                    violations.append(
                        (f"{part.name}/{b}", {"part": part.name, "bucket": b, "case": e["case"],
                                              "detail": d, "note": "other failure on a known-finding witness"})
                    )
            continue
        # fixed: plain regression replay (run with the active known findings excluded)
        part = _part_of(mod, e["part"])
        rec = run_one(part, e["case"], frozenset(active), None, {"kind": "regression"})
        for b, d in rec.fails:
            violations.append(
                (f"{part.name}/{b}", {"part": part.name, "bucket": b, "case": e["case"],
                                      "detail": d, "regression_of": e.get("line")})
            )
    factive = frozenset(active)

    # --- 2. replay tier --------------------------------------------------------
    total = Agg()
    rdir = os.path.join(VERIF, "replays", pid)
    n_replays = 0
    if os.path.isdir(rdir):
        for fn in sorted(os.listdir(rdir)):
            if not fn.endswith(".json"):
                continue
            with open(os.path.join(rdir, fn)) as f:
                doc = json.load(f)
            part = _part_of(mod, doc["part"])
            run_one(part, doc["case"], factive, total, {"kind": "replayfile", "file": fn})
            n_replays += 1

    # --- 3./4. enumeration and Hypothesis tiers ----------------------------------
    parts = mod.PARTS
    if a.parts:
        want = set(a.parts.split(","))
        parts = [p for p in parts if p.name in want]
    nshards = NPROC if tier == "thorough" else max(1, min(NPROC, int(os.environ.get("VERIF_QUICK_PROCS", "4"))))
    jobs_enum, jobs_hyp = [], []
    per_part: dict[str, dict] = {}
    for p in parts:
        per_part[p.name] = {}
        if p.enum is not None:
            for s in range(nshards):
                jobs_enum.append((modname, p.name, tier, s, nshards, factive))
            per_part[p.name]["enum"] = p.enum_note(tier) if p.enum_note else "bounded-exhaustive"
        if p.strategy is not None:
            n_total = int(p.n[tier])
            per = max(1, n_total // nshards)
            for s in range(nshards):
                hseed = seed * 100003 + (abs(hash_str(p.name)) % 1000) * 101 + s
                jobs_hyp.append((modname, p.name, tier, hseed, per, factive))
            per_part[p.name]["hypothesis_examples"] = per * nshards

    jobs = [("enum", j) for j in jobs_enum] + [("hyp", j) for j in jobs_hyp]
    for agg in run_jobs(jobs, nshards):
        total.merge(agg)

    # --- 5. triage buckets ----------------------------------------------------------
    exit_code = 0
    if total.harness_errors:
        print(f"HARNESS-ERROR property={pid}: {len(total.harness_errors)} harness error(s); first:")
        print(total.harness_errors[0][:3000])
        exit_code = 2

    # Every remaining bucket is a violation that known_findings.json does not
    # list (checks never rec.fail() for the excluded trigger of an active known
    # finding).  Shrink each in a child process (memory limit, watchdog).
    items = sorted(total.buckets.items())
    if items and not a.no_shrink:
        # hangs, deadlocks and dead workers are not shrunk: every attempt would wait for a watchdog again
        def _slow(info):
            b = str(info.get("bucket", ""))
            return b in ("hang", "deadlock", "worker-died") or "deadlock" in b or b.startswith("exc:Hang")

        sjobs = [("shrink", (modname, info["part"], tier, key, info, factive)) for key, info in items[:12] if not _slow(info)]
        shrunk = [r for r in run_jobs(sjobs, nshards) if isinstance(r, dict)]
        by_key = {(r["part"], r["bucket"]): r for r in shrunk}
        items = [(key, by_key.get((info["part"], info["bucket"]), info)) for key, info in items]
    for key, info in items:
        violations.append((key, info))

    out_dir = os.path.join(os.environ.get("VERIF_OUT_DIR") or os.path.join(VERIF, "out"), "violations", pid)
    seen = set()
    for key, info in violations:
        if key in seen:
            continue
        seen.add(key)
        os.makedirs(out_dir, exist_ok=True)
        safe = "".join(c if c.isalnum() or c in "-_." else "_" for c in key)[:120]
        path = os.path.join(out_dir, f"{safe}.json")
        with open(path, "w") as f:
            json.dump(
                {"property": pid, "part": info["part"], "bucket": info["bucket"], "seed": seed,
                 "tier": tier, "case": info["case"], "detail": info.get("detail"),
                 "count": info.get("count", 1)},
                f, indent=1, default=repr)
        print(f"FAIL property={pid} bucket={key} count={info.get('count', 1)} "
              f"detail={cjson(info.get('detail'))[:400]}")
        print(f"VIOLATION property={pid} replay={path}")
        if exit_code == 0:
            exit_code = 1

    for line in known_lines:
        print(line)

    # --- 6. evidence ---------------------------------------------------------------------
    wall = time.time() - t0
    exhaustive = any(p.enum is not None for p in parts)
    cov = {
        "evaluations": total.evaluations + total.inner_evals,
        "cases": total.evaluations,
        "distinct_nontrivial": len(total.digests),
        "rule": mod.RULE,
        "samples": [{"part": x["part"], "case_json": cjson(x["case"])[:3000]} for x in total.samples[:4]]
        or [{"note": "no non-trivial case in this run"}],
        "classes": dict(sorted(total.classes.items())),
        "parts": per_part,
        "replay_files": n_replays,
        "exhaustive": bool(exhaustive and total.enum_total > 0 and not total.inconclusive),
        "inconclusive_shards_stopped_by_wall_budget": total.inconclusive,
        "enumerated_cases": total.enum_total,
        "excluded_by_known_finding": dict(total.excluded),
        "known_findings_active": sorted(active),
        "processes": nshards,
    }
    if exhaustive and getattr(mod, "EXHAUSTIVE_NOTE", None):
        cov["exhaustive_bound"] = mod.EXHAUSTIVE_NOTE.get(tier)
    ev = {
        "property_id": pid,
        "tier": tier,
        "seed": seed,
        "level": mod.LEVEL,
        "coverage": cov,
        "assumptions": list(mod.ASSUMPTIONS),
        "wall_s": round(wall, 2),
        "violations": len(seen),
    }
    evdir = os.environ.get("VERIF_EVIDENCE_DIR") or os.path.join(VERIF, "evidence")
    os.makedirs(evdir, exist_ok=True)
    with open(os.path.join(evdir, f"{pid}.json"), "w") as f:
        json.dump(ev, f, indent=1, default=repr)
    print(
        f"{pid} tier={tier} seed={seed} cases={total.evaluations} evals={cov['evaluations']} "
        f"nontrivial={len(total.digests)} violations={len(seen)} known={sorted(active)} "
        f"wall={wall:.1f}s exit={exit_code}"
    )
    return exit_code


def hash_str(s: str) -> int:
    return int.from_bytes(hashlib.blake2b(s.encode(), digest_size=4).digest(), "big")
