"""Tree specs -> real nutree trees through the public API only (DESIGN 2.1/2.2).

spec  := [node, ...]
node  := [label, [node, ...]]  or  [label, [node, ...], opts]
opts  := {"id": explicit data_id, "kind": str, "nid": explicit node_id,
          "meta": dict, "fresh": true (use an equal-but-distinct data object)}
"""

from __future__ import annotations

import dataclasses

from vlib import core  # noqa: F401  (sets sys.path for the code under test)

from nutree import Tree, TypedTree  # noqa: E402
from nutree.common import DictWrapper  # noqa: E402

ALPHA = ["a", "b", "c", "d", "e", "f", "a1", "b1", "ä", "☃", "名"]
ALPHA_ASCII = ["a", "b", "c", "d", "e", "f", "a1", "b1", "ab", "c2"]
KINDS = ["child", "x", "y", "z"]


def fresh_str(s):
    """an equal but distinct (non-interned) str object (len >= 2)"""
    return "".join(list(s)) if isinstance(s, str) and len(s) >= 2 else s



@dataclasses.dataclass(frozen=True)
class Item:
    name: str

    def __str__(self):
        return self.name


@dataclasses.dataclass(frozen=True)
class Money:
    """a value object whose format() text differs from its str() text (as Decimal-like / unit classes do):
    f"{x}" and "{node.data}".format(node=...) show format(x, ""), str(x) and node.name's f-string likewise"""

    name: str

    def __str__(self):
        return "s<" + self.name + ">"

    def __format__(self, spec):
        return format("f<" + self.name + ">", spec)


class Person:
    """Plain (identity-hashed) object carrying a guid, as in the user guide."""

    kind = "human"  # an ordinary attribute (what `node.kind` shows on a plain tree with forward_attrs=True)

    def __init__(self, guid, name):
        self.guid = guid
        self.name = name

    def __str__(self):
        return self.name

    def __repr__(self):
        return f"Person<{self.guid},{self.name}>"


def _cb_guid(tree, data):
    # total, like GuidTree.calc_data_id: a lookup key may be any object (tree["absent"], `x in tree`)
    if hasattr(data, "guid"):
        return data.guid
    return hash(data)


def _cb_dict_guid(tree, data):
    if isinstance(data, dict):
        return data["guid"]
    return hash(data)


class GuidTree(Tree):
    def calc_data_id(self, data):
        if hasattr(data, "guid"):
            return data.guid
        return hash(data)


class GuidTypedTree(TypedTree):
    def calc_data_id(self, data):
        if hasattr(data, "guid"):
            return data.guid
        return hash(data)


class HDict(dict):
    """a dict subclass that is hashable by content (a frozendict-like record): DictWrapper is documented to key a
    node by the IDENTITY of the wrapped dict all the same"""

    def __hash__(self):
        return hash(tuple(sorted(self.items())))


# ints whose hash is not the int itself: hash(-1) == hash(-2) == -2, hash(n) == n % (2**61 - 1) for big n
# ("~f" is the hash twin of "f"; it only occurs as NEW data in operation histories, never in a generated forest)
_ODD_INTS = {"e": 2**62 + 11, "f": -1, "~f": -2}

FLAVOURS = ["str", "int", "tuple", "dc", "dictwrap", "obj_cb", "obj_sub", "dict_explicit", "obj_fwd", "dict_cb"]
FLAVOURS_ALL = FLAVOURS + ["money", "str_kid"]


class KidTypedTree(TypedTree):
    """a TypedTree whose default kind is overridden (DEFAULT_CHILD_TYPE is a documented class constant)"""

    DEFAULT_CHILD_TYPE = "kid"


class Flavour:
    """One per case: owns the pool label -> shared data object."""

    def __init__(self, name: str = "str"):
        assert name in FLAVOURS_ALL, name
        self.kid = name == "str_kid"  # plain strings; typed trees are KidTypedTrees
        if self.kid:
            name = "str"
        self.name = name
        self.pool: dict[str, object] = {}
        self.labels: dict[int, str] = {}  # id(data) -> label (for non-str data)
        self.keep: list = []  # strong refs, so id() is never recycled inside a case

    # -- trees -------------------------------------------------------------
    def new_tree(self, typed: bool = False, name=None):
        if self.name == "obj_cb":
            cls = TypedTree if typed else Tree
            return cls(name, calc_data_id=_cb_guid)
        if self.name == "dict_cb":
            # unhashable data objects (plain dicts) identified by a calc_data_id callback, as in the user guide
            cls = TypedTree if typed else Tree
            return cls(name, calc_data_id=_cb_dict_guid)
        if self.name == "obj_fwd":
            # attributes of the data objects are readable through the nodes; the objects have an attribute `kind`
            cls = TypedTree if typed else Tree
            return cls(name, calc_data_id=_cb_guid, forward_attrs=True)
        if self.name == "obj_sub":
            return (GuidTypedTree if typed else GuidTree)(name)
        if typed and self.kid:
            return KidTypedTree(name)
        return (TypedTree if typed else Tree)(name)

    # -- data ----------------------------------------------------------------
    def _make(self, label: str):
        n = self.name
        if n == "str":
            return label
        if n == "int":
            if label in _ODD_INTS:
                return _ODD_INTS[label]
            return ALPHA.index(label) + 1 if label in ALPHA else (abs(hash(label)) % 10**6) + 100
        if n == "tuple":
            return tuple([label])
        if n == "dc":
            return Item(label)
        if n == "money":
            return Money(label)
        if n == "dictwrap":
            shared = self.pool.get(label)
            # labels sharing the first letter get dicts of EQUAL CONTENT that are distinct objects: DictWrapper is
            # documented to compare (and hash) by the identity of the wrapped dict, not by its content
            d = shared._dict if shared is not None else (HDict(name=label[:1]) if label[:1] == "a" else {"name": label[:1]})
            return DictWrapper(d)
        if n in ("obj_cb", "obj_sub", "obj_fwd"):
            return Person("g-" + label, label)
        if n == "dict_explicit":
            return {"name": label}
        if n == "dict_cb":
            return {"guid": "g-" + label, "name": label}
        raise AssertionError(n)

    def data(self, label: str, fresh: bool = False):
        if not fresh and label in self.pool:
            return self.pool[label]
        d = self._make(label)
        self.keep.append(d)
        self.labels[id(d)] = label
        # (a `fresh` object never becomes the pooled one - except for DictWrapper, where fresh means a new wrapper
        # around the pooled dict)
        if label not in self.pool and (not fresh or self.name == "dictwrap"):
            self.pool[label] = d
        return d

    def label(self, data) -> str:
        if self.name == "str":
            return data
        return self.labels.get(id(data), f"?{data!r}")

    def needs_explicit_id(self) -> bool:
        return self.name == "dict_explicit"

    def auto_id(self, label: str, data):
        """data_id the documentation promises when no explicit id is given."""
        n = self.name
        if n in ("obj_cb", "obj_sub", "obj_fwd", "dict_cb"):
            return "g-" + label
        if n == "dict_explicit":
            return "x-" + label  # always passed explicitly
        return hash(data)

    def explicit_default(self, label: str):
        return "x-" + label if self.name == "dict_explicit" else None


def node_label(n) -> str:
    return n[0]


def node_children(n) -> list:
    return n[1]


def node_opts(n) -> dict:
    return n[2] if len(n) > 2 and n[2] else {}


def build(spec, *, flavour: Flavour | None = None, typed: bool = False, name="T", tree=None):
    """Return (tree, nodes_in_preorder)."""
    fl = flavour or Flavour("str")
    if tree is None:
        tree = fl.new_tree(typed=typed, name=name)
    nodes = []

    def add_all(parent, items):
        for item in items:
            label, opts = item[0], node_opts(item)
            data = fl.data(label, fresh=bool(opts.get("fresh")))
            kw = {}
            did = opts.get("id")
            if did is None:
                did = fl.explicit_default(label)
            if did is not None:
                kw["data_id"] = did
            if opts.get("nid") is not None:
                kw["node_id"] = opts["nid"]
            if typed:
                kw["kind"] = fresh_str("child" if opts.get("kind") is None else opts["kind"])  # "" is a legal kind
            n = parent.add(data, **kw)
            if opts.get("meta"):
                n.update_meta(dict(opts["meta"]))
            nodes.append(n)
            add_all(n, item[1])

    add_all(tree, spec)
    return tree, nodes
