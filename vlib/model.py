"""Independent executable specification of nutree's mutating API (DESIGN 2.4).

Written from the docstrings and the user guide; shares no code with nutree and
uses the dumbest data structures (lists, identity search with `is`).
"""

from __future__ import annotations


class MNode:
    __slots__ = ("uid", "data", "data_id", "kind", "meta", "children", "parent", "node_id")

    def __init__(self, uid, data, data_id, kind=None, meta=None, node_id=None):
        self.uid = uid
        self.data = data
        self.data_id = data_id
        self.kind = kind
        self.meta = meta  # dict or None ({} is normalised to None)
        self.children = []
        self.parent = None
        self.node_id = node_id  # explicit node id or None (= default)

    def __repr__(self):
        return f"M<{self.uid}:{self.data!r}/{self.data_id!r}>"


class MTree:
    def __init__(self, typed=False):
        self.typed = typed
        self.root = MNode(-1, None, "__root__")
        self._next = 0

    def new_uid(self):
        self._next += 1
        return self._next - 1

    # ---- queries ---------------------------------------------------------------
    def preorder(self, start=None):
        out = []

        def rec(n):
            for c in n.children:
                out.append(c)
                rec(c)

        rec(start or self.root)
        return out

    def descendants(self, n):
        return self.preorder(n)

    def is_inside(self, n, branch_root):
        """n is branch_root or one of its descendants"""
        x = n
        while x is not None:
            if x is branch_root:
                return True
            x = x.parent
        return False

    def group(self, data_id):
        return [n for n in self.preorder() if n.data_id == data_id]

    def index_of(self, n):
        for i, c in enumerate(n.parent.children):
            if c is n:
                return i
        raise AssertionError("model corrupt")

    def has_sibling_id(self, parent, data_id, ignore=()):
        return any(c.data_id == data_id and all(c is not x for x in ignore) for c in parent.children)

    def count(self):
        return len(self.preorder())

    # ---- primitive mutations -------------------------------------------------------
    def make(self, data, data_id, kind=None, node_id=None):
        return MNode(self.new_uid(), data, data_id, kind if self.typed else None, None, node_id)

    def insert(self, parent, node, pos):
        """pos: None=append, int index"""
        node.parent = parent
        if pos is None:
            parent.children.append(node)
        else:
            parent.children.insert(pos, node)

    def detach(self, node):
        p = node.parent
        p.children.pop(self.index_of(node))
        node.parent = None

    def copy_branch(self, src, deep, kind_override=None):
        """copy of a model node of any model tree: same data, data_id, kind"""
        n = self.make(src.data, src.data_id, kind_override if kind_override is not None else src.kind)
        if deep:
            for c in src.children:
                cc = self.copy_branch(c, True)
                cc.parent = n
                n.children.append(cc)
        return n

    # ---- observation ----------------------------------------------------------------------
    def snapshot(self, start=None):
        def one(n):
            return [n.uid, id(n.data), n.data_id, n.kind, dict(n.meta) if n.meta else None, [one(c) for c in n.children]]

        return [one(c) for c in (start or self.root).children]


def resolve_before(parent, before):
    """`before` already resolved to None / True / False / int / MNode.
    -> ("pos", index-or-None) | ("invalid", reason) | ("unspecified", reason)
    following the add_child docstring:
      False, None: append; True, 0: first; <int>: before the existing child with
      this index; <Node>: before this child node."""
    n = len(parent.children)
    if before is None or before is False:
        return ("pos", None)
    if before is True:
        return ("pos", 0)
    if isinstance(before, int):
        if before == 0:
            return ("pos", 0)
        if 0 < before < n:
            return ("pos", before)
        return ("unspecified", "int position without an existing child of that index")
    # a node
    for i, c in enumerate(parent.children):
        if c is before:
            return ("pos", i)
    return ("invalid", "before-node is not a child of the target")
