"""Bounded-exhaustive enumerators (DESIGN 2.1)."""

from __future__ import annotations

import itertools
from functools import lru_cache


@lru_cache(maxsize=None)
def _forests(n: int) -> tuple:
    """All ordered forests with exactly n nodes; a forest is a tuple of trees,
    a tree is the tuple of its child trees."""
    if n == 0:
        return ((),)
    out = []
    for k in range(1, n + 1):
        for first in _forests(k - 1):
            for rest in _forests(n - k):
                out.append((first,) + rest)
    return tuple(out)


def forest_shapes(n: int):
    return _forests(n)


def label_shape(forest, labels=None) -> list:
    """shape -> spec [[label, children], ...] with labels n0, n1, ... in pre-order
    (or taken from `labels`)."""
    counter = itertools.count()

    def lab(t):
        i = next(counter)
        name = labels[i] if labels is not None else f"n{i}"
        return [name, [lab(c) for c in t]]

    return [lab(t) for t in forest]


def forests_upto(nmax: int, nmin: int = 0):
    """Specs of all ordered forests with nmin..nmax uniquely labelled nodes,
    by increasing size."""
    for n in range(nmin, nmax + 1):
        for f in _forests(n):
            yield label_shape(f)


def count_forests_upto(nmax: int, nmin: int = 0) -> int:
    return sum(len(_forests(n)) for n in range(nmin, nmax + 1))


def sibling_unique_labelings(forest, alphabet):
    """All assignments of labels from `alphabet` to the nodes of `forest`
    (a shape) such that siblings carry distinct labels.  Yields specs."""

    def assign_level(trees):
        # choose distinct labels for these siblings, then recurse
        k = len(trees)
        if k == 0:
            yield []
            return
        for labs in itertools.permutations(alphabet, k):
            subs = [list(assign_level(t)) for t in trees]
            for combo in itertools.product(*subs):
                yield [[labs[i], combo[i]] for i in range(k)]

    yield from assign_level(forest)


def spec_size(spec) -> int:
    return sum(1 + spec_size(n[1]) for n in spec)


def spec_depth(spec) -> int:
    return 0 if not spec else 1 + max(spec_depth(n[1]) for n in spec)


def spec_labels(spec) -> list:
    out = []
    for n in spec:
        out.append(n[0])
        out.extend(spec_labels(n[1]))
    return out
