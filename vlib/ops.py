"""JSON op language + history engine: applies every op to the real tree and to
the independent model (DESIGN 2.3).  Node arguments are integers resolved at
execution time against the current pre-order list, so every generated op is
applicable in every state and a history is one shrinkable, replayable value.
"""

from __future__ import annotations

from collections import Counter
from operator import attrgetter

from vlib.build import Flavour, build
from vlib.model import MNode, MTree, resolve_before
from vlib.observe import Uids, index_probe, snapshot, walk

from nutree import AmbiguousMatchError, SkipBranch, TreeError, UniqueConstraintError

E_UNIQUE = (UniqueConstraintError,)
E_POSITION = (ValueError, AssertionError, TreeError)
E_TARGET = (ValueError, AssertionError, TreeError, NotImplementedError)
E_NOTIMPL = (NotImplementedError,)
E_AMBIG = (AmbiguousMatchError,)
E_VALUE = (ValueError,)
E_KEY = (KeyError,)

SORT_KEYS = {
    "default": (None, lambda m: f"{m.data}"),
    "name": (attrgetter("name"), lambda m: f"{m.data}"),
    "rev-name": (lambda n: n.name[::-1], lambda m: f"{m.data}"[::-1]),
    "data_id": (lambda n: str(n.data_id), lambda m: str(m.data_id)),
    "len": (lambda n: len(n.name), lambda m: len(f"{m.data}")),
}


ENGINE_FINDINGS = ["D10a"]


def engine_known(rec):
    return [f for f in ENGINE_FINDINGS if rec.known(f)]


def flush_excluded(eng, rec):
    for k, v in eng.excluded.items():
        rec.excl(k, v)
    eng.excluded.clear()


class Plan:
    __slots__ = ("status", "exc", "call", "apply", "route", "relaxed", "new_nodes", "ret", "note")

    def __init__(self, status, route, call=None, apply=None, exc=None, relaxed=None, note=None):
        self.status = status  # valid | refuse | unspecified | na
        self.route = route
        self.call = call
        self.apply = apply
        self.exc = exc
        self.relaxed = relaxed
        self.note = note


class _Gone:
    """model stand-in for a node that is no longer part of the tree"""

    children = ()
    parent = None
    data_id = object()

    def __repr__(self):
        return "<node that left the tree>"


GONE = _Gone()

GROWERS = {"add_tree", "add_own_tree", "own_copy_to", "copy_to", "shortcut_tree", "add_node", "add_node_ids", "copy_from2", "tree2_copy_to"}
MAX_MODEL_NODES = 1500


class Outcome:
    __slots__ = ("op", "plan", "raised", "retval", "events", "state_changed", "expected_gone")

    def __init__(self, op, plan):
        self.op = op
        self.plan = plan
        self.raised = None
        self.retval = None
        self.events = []  # (category, bucket, detail)
        self.state_changed = None
        self.expected_gone = []  # real nodes that, according to the model, left the tree in this step


def norm_meta(m):
    return dict(m) if m else None


class Engine:
    def __init__(self, spec=None, *, typed=False, flavour="str", spec2=None, tree=None, fl=None, known=(), tree2=None):
        self.typed = typed
        self.known = set(known)  # ids of active known findings whose defect model is applied
        self.excluded = Counter()
        self.fl = fl or Flavour(flavour)
        self.build_problems = []  # nodes whose data_id / kind differ from what the spec asked for
        if tree is None:
            self.tree, nodes = build(spec or [], flavour=self.fl, typed=typed, name="T1")
            self._verify_build(spec or [], nodes)
        else:
            self.tree = tree
        if tree2 is None:
            self.tree2, _ = build(spec2 or [], flavour=self.fl, typed=typed, name="T2")
        else:
            self.tree2 = tree2
        self.default_kind = getattr(self.tree, "DEFAULT_CHILD_TYPE", "child") if typed else None
        self.uids = Uids()
        self.real_of = {}  # model uid -> real node
        self.uid_of_real = {}  # id(real node) -> model uid
        self.model = self._model_from_real(self.tree, register=True)
        self.model2 = self._model_from_real(self.tree2, register=False)
        self.real2_of = {}
        self._pair_tree2()
        self.ever = {}  # id(node) -> (node, node_id at that time)   every node ever reachable in tree 1
        self._note_ever()
        self.steps = 0

    # ------------------------------------------------------------------------------------
    def _model_from_real(self, tree, register):
        mt = MTree(typed=self.typed)
        w = walk(tree)

        def rec(mparent, rnodes):
            for r in rnodes:
                nid = r.node_id if r.node_id != id(r) else None
                m = MNode(mt.new_uid(), r.data, r.data_id, getattr(r, "kind", None) if self.typed else None, norm_meta(r.meta), nid)
                m.parent = mparent
                mparent.children.append(m)
                if register:
                    self.real_of[m.uid] = r
                    self.uid_of_real[id(r)] = m.uid
                    self.uids.of(r)
                rec(m, w.kids[id(r)])

        rec(mt.root, w.kids[id(None)])
        return mt

    def _verify_build(self, spec, nodes):
        flat = []

        def rec(items):
            for it in items:
                flat.append(it)
                rec(it[1])

        rec(spec)
        for it, n in zip(flat, nodes):
            o = it[2] if len(it) > 2 and it[2] else {}
            did = o.get("id")
            if did is None:
                did = self.fl.explicit_default(it[0])
            exp = did if did is not None else self.fl.auto_id(it[0], n.data)
            if n.data_id != exp:
                self.build_problems.append(("data_id", repr(n.data), repr(n.data_id), repr(exp)))
            want_kind = "child" if o.get("kind") is None else o["kind"]
            if self.typed and n.kind != want_kind:
                self.build_problems.append(("kind", repr(n.data), n.kind, want_kind))

    def _pair_tree2(self):
        w = walk(self.tree2)
        for m, r in zip(self.model2.preorder(), w.pre):
            self.real2_of[m.uid] = r

    def resync(self):
        """Re-derive the model from the real tree (after unspecified ops or after a
        mismatch that the running check does not care about)."""
        self.real_of.clear()
        self.uid_of_real.clear()
        self.model = self._model_from_real(self.tree, register=True)

    def _note_ever(self):
        for n in walk(self.tree).pre:
            if id(n) not in self.ever:
                self.ever[id(n)] = (n, n.node_id)

    # ------------------------------------------------------------------------------------
    def compare(self):
        """Model vs real; returns None or (category, detail)."""
        new_pairs = []
        seen_real = set()

        def rec(mnodes, rnodes, path, rparent):
            if len(mnodes) != len(rnodes):
                return ("shape", {"at": path, "model": [f"{m.data}" for m in mnodes], "real": [f"{r.data}" for r in rnodes]})
            for i, (m, r) in enumerate(zip(mnodes, rnodes)):
                p = path + [i]
                if id(r) in seen_real:
                    return ("identity", {"at": p, "why": "real node object appears twice"})
                seen_real.add(id(r))
                known = self.real_of.get(m.uid)
                if known is not None:
                    if known is not r:
                        what = "order" if self.uid_of_real.get(id(r)) is not None else "identity"
                        return (what, {"at": p, "model": f"{m.data}", "real": f"{r.data}", "why": "another existing node object sits at this position" if what == "order" else "existing node was replaced by a new object"})
                else:
                    if id(r) in self.uid_of_real:
                        return ("identity", {"at": p, "why": "an existing node object sits where a new node is expected", "real": f"{r.data}"})
                    new_pairs.append((m, r))
                if r.data is not m.data:
                    return ("data", {"at": p, "model": repr(m.data), "real": repr(r.data)})
                if r.data_id != m.data_id:
                    return ("data_id", {"at": p, "model": repr(m.data_id), "real": repr(r.data_id), "data": repr(m.data)})
                if self.typed and getattr(r, "kind", None) != m.kind:
                    return ("kind", {"at": p, "model": m.kind, "real": getattr(r, "kind", None)})
                # documented: `node.meta` is None when there is no metadata (not an empty dict)
                if r.meta != m.meta or (r.meta is None) != (m.meta is None):
                    return ("meta", {"at": p, "model": m.meta, "real": r.meta})
                if m.node_id is not None and r.node_id != m.node_id:
                    return ("node_id", {"at": p, "model": m.node_id, "real": r.node_id})
                if r.parent is not rparent:
                    return ("parent-link", {"at": p})
                if r.tree is not self.tree:
                    return ("owner", {"at": p})
                res = rec(m.children, list(r.children), p, r)
                if res:
                    return res
            return None

        res = rec(self.model.root.children, list(self.tree.children), [], None)
        if res is None:
            for m, r in new_pairs:
                self.real_of[m.uid] = r
                self.uid_of_real[id(r)] = m.uid
                self.uids.of(r)
            # forget pairs of nodes that left the model
            alive = {m.uid for m in self.model.preorder()}
            for uid in [u for u in self.real_of if u not in alive]:
                r = self.real_of.pop(uid)
                self.uid_of_real.pop(id(r), None)
        return res

    # ------------------------------------------------------------------------------------
    def node(self, ref):
        pre = self.model.preorder()
        if not pre:
            return None
        return pre[ref % len(pre)]

    def parent_of(self, ref):
        """-1 -> the tree itself"""
        if ref is None or ref < 0:
            return self.model.root
        n = self.node(ref)
        return n if n is not None else self.model.root

    def real(self, m, tree2=False):
        if m is self.model.root:
            return self.tree
        if tree2:
            return self.real2_of[m.uid]
        return self.real_of[m.uid]

    def decode_before(self, parent, before):
        """JSON -> (model value, real value)"""
        if before is None or before is True or before is False:
            return before, before
        kind, k = before
        if kind == "i":
            return k, k
        if kind == "c":
            if not parent.children:
                return None, None
            c = parent.children[k % len(parent.children)]
            return c, self.real(c)
        if kind == "x":
            n = self.node(k)
            if n is None:
                return None, None
            return n, self.real(n)
        if kind == "g":
            # a node that was part of the tree earlier and has left it (removed, filtered out, cleared): the caller
            # still holds the reference.  For the model it is simply "not a child of the target".
            alive = {id(r) for r in self.real_of.values()}
            gone = [node for node, _nid in self.ever.values() if id(node) not in alive]
            if not gone:
                return None, None
            return GONE, gone[k % len(gone)]
        if kind == "u":
            # a node of an unrelated tree of the OTHER node class (a plain Node for a typed tree, a TypedNode for a
            # plain tree): not a child of the target either
            if getattr(self, "_alien", None) is None:
                from nutree import Tree, TypedTree

                if self.typed:
                    t = Tree("alien")
                    self._alien = [t.add("u0"), t.add("u1").add("u2")]
                else:
                    t = TypedTree("alien")
                    self._alien = [t.add("u0", kind="x"), t.add("u1", kind="x").add("u2", kind="y")]
                self._alien_tree = t
            return GONE, self._alien[k % 2]
        raise AssertionError(before)

    def new_data(self, label, opts):
        data = self.fl.data(label, fresh=bool(opts.get("fresh")))
        did = opts.get("id")
        if did is None:
            did = self.fl.explicit_default(label)
        eff = did if did is not None else self.fl.auto_id(label, data)
        return data, did, eff

    # ------------------------------------------------------------------------------------
    def plan(self, op) -> Plan:
        kind = op[0]
        if kind in GROWERS and self.model.count() > MAX_MODEL_NODES:
            # copies of (parts of) a tree that is already big: every one may double it again, a history of them
            # outgrows what the observers walk (observe.MAX_NODES); such a step is skipped
            return Plan("na", kind + ":tree-too-large")
        fn = getattr(self, "_op_" + kind)
        return fn(*op[1:])

    # ---- insertion of new data ---------------------------------------------------------------
    def _insert_plan(self, route, parent, label, before_json, opts, how):
        """how: 'add' | 'append_child' | 'prepend_child' | 'prepend_sibling' | 'append_sibling' (parent = anchor node)"""
        opts = opts or {}
        data, did, eff = self.new_data(label, opts)
        mt = self.model
        anchor = None
        if how in ("prepend_sibling", "append_sibling"):
            anchor = parent
            if anchor is mt.root:
                return Plan("na", route)
            parent = anchor.parent
        elif how in ("append_child", "prepend_child") and parent is mt.root:
            return Plan("na", route)
        kind = opts.get("kind") if self.typed else None
        if self.typed:
            if how in ("prepend_sibling", "append_sibling"):
                kind = anchor.kind  # "Add a new node of same kind"
            elif kind is None:
                kind = self.default_kind
        nid_arg = opts.get("nid")
        nid = int(nid_arg) if nid_arg is not None else None  # documented as str|int, kept as int
        dup_nid = nid is not None and any(r.node_id == nid for r in walk(self.tree).pre)
        kw = {}
        if did is not None:
            kw["data_id"] = did
        if nid is not None:
            kw["node_id"] = nid_arg
        rparent = self.real(parent)
        if how == "add":
            mb, rb = self.decode_before(parent, before_json)
            if self.typed and opts.get("kind") is not None:
                kw["kind"] = opts["kind"]
            call = lambda: rparent.add(data, before=rb, **kw)  # noqa: E731
            if before_json is None and opts.get("no_before_kw"):
                call = lambda: rparent.add(data, **kw)  # noqa: E731
            res = resolve_before(parent, mb)
        elif how == "append_child":
            if self.typed and opts.get("kind") is not None:
                kw["kind"] = opts["kind"]
            call = lambda: rparent.append_child(data, **kw)  # noqa: E731
            res = ("pos", None)
        elif how == "prepend_child":
            if self.typed and opts.get("kind") is not None:
                kw["kind"] = opts["kind"]
            call = lambda: rparent.prepend_child(data, **kw)  # noqa: E731
            res = ("pos", 0)
        elif how == "prepend_sibling":
            ranchor = self.real(anchor)
            call = lambda: ranchor.prepend_sibling(data, **kw)  # noqa: E731
            res = ("pos", mt.index_of(anchor))
        else:
            ranchor = self.real(anchor)
            call = lambda: ranchor.append_sibling(data, **kw)  # noqa: E731
            res = ("pos", mt.index_of(anchor) + 1)
        if dup_nid:
            # a node_id that is already in use: what happens is not documented, but IF the call raises, the tree
            # must be as it was (C13 evaluates that for "unspecified" plans)
            return Plan("unspecified", route + ":duplicate-node_id", call=call)
        if res[0] == "unspecified":
            return Plan("unspecified", route + ":" + res[1], call=call)
        collide = mt.has_sibling_id(parent, eff)
        if res[0] == "invalid":
            return Plan("refuse", route + ":before-not-a-child", call=call, exc=E_POSITION + E_UNIQUE if collide else E_POSITION)
        if collide:
            return Plan("refuse", route + ":collision", call=call, exc=E_UNIQUE)

        def apply():
            n = mt.make(data, eff, kind, nid)
            mt.insert(parent, n, res[1])
            return n

        return Plan("valid", route, call=call, apply=apply)

    def _op_add(self, parent_ref, label, before, opts=None):
        return self._insert_plan("add", self.parent_of(parent_ref), label, before, opts, "add")

    def _op_append_child(self, ref, label, opts=None):
        return self._insert_plan("append_child", self.parent_of(ref), label, None, opts, "append_child")

    def _op_prepend_child(self, ref, label, opts=None):
        return self._insert_plan("prepend_child", self.parent_of(ref), label, None, opts, "prepend_child")

    def _op_prepend_sibling(self, ref, label, opts=None):
        return self._insert_plan("prepend_sibling", self.parent_of(ref), label, None, opts, "prepend_sibling")

    def _op_append_sibling(self, ref, label, opts=None):
        return self._insert_plan("append_sibling", self.parent_of(ref), label, None, opts, "append_sibling")

    # ---- copies -----------------------------------------------------------------------------------
    def _top_copy_kind(self, src):
        """Known finding D10a (defect model): the top node of a typed copy made
        without `kind=` gets the default kind instead of the source's kind."""
        if self.typed and "D10a" in self.known:
            if src.kind != self.default_kind:
                self.excluded["D10a"] += 1
            return self.default_kind
        return None

    def _src(self, src_tree, ref):
        if src_tree == 1:
            pre = self.model2.preorder()
            if not pre:
                return None, None
            m = pre[ref % len(pre)]
            return m, self.real2_of[m.uid]
        m = self.node(ref)
        if m is None:
            return None, None
        return m, self.real(m)

    def _op_add_node(self, parent_ref, src_tree, src_ref, deep, before, kind=None):
        """parent.add(existing_node, deep=, before=[, kind=])"""
        route = "add_node" + (":cross-tree" if src_tree == 1 else "") + (":deep" if deep else "")
        mt = self.model
        parent = self.parent_of(parent_ref)
        src, rsrc = self._src(src_tree, src_ref)
        if src is None:
            return Plan("na", route)
        rparent = self.real(parent)
        mb, rb = self.decode_before(parent, before)
        kw = {}
        if deep is not None:
            kw["deep"] = deep
        if kind is not None and self.typed:
            kw["kind"] = kind
        call = lambda: rparent.add(rsrc, before=rb, **kw)  # noqa: E731
        if deep and src_tree == 0 and mt.is_inside(parent, src):
            route += ":into-own-branch"  # the copy shows the branch as it was before the call
        res = resolve_before(parent, mb)
        if res[0] == "unspecified":
            return Plan("unspecified", route + ":" + res[1], call=call)
        collide = mt.has_sibling_id(parent, src.data_id)
        if res[0] == "invalid":
            return Plan("refuse", route + ":before-not-a-child", call=call, exc=E_POSITION + E_UNIQUE if collide else E_POSITION)
        if collide:
            return Plan("refuse", route + ":collision", call=call, exc=E_UNIQUE)
        def apply():
            ko = kind if (kind is not None and self.typed) else self._top_copy_kind(src)
            n = mt.copy_branch(src, bool(deep), kind_override=ko)  # same data, data_id and kind (or the explicit kind)
            mt.insert(parent, n, res[1])
            return n

        return Plan("valid", route, call=call, apply=apply)

    def _op_add_node_ids(self, parent_ref, src_ref, which, deep):
        """<parent>.add(<node>, deep=..., data_id=<the source's> | node_id=<int>): the ID arguments are documented
        as 'only allowed for single nodes, not for deep copies' (node_id is refused for every node copy)"""
        route = f"add_node:{which}" + (":deep" if deep else "")
        mt = self.model
        parent = self.parent_of(parent_ref)
        src = self.node(src_ref)
        if src is None:
            return Plan("na", route)
        rparent, rsrc = self.real(parent), self.real(src)
        kw = {"deep": bool(deep)}
        if self.typed:
            kw["kind"] = src.kind
        if which == "node_id":
            kw["node_id"] = 9100 + self.steps
        else:
            if not deep:
                return Plan("na", route)  # a shallow copy with the source's own data_id is an ordinary copy
            kw["data_id"] = src.data_id
            if src.data_id is None:
                return Plan("na", route)
        call = lambda: rparent.add(rsrc, **kw)  # noqa: E731
        collide = mt.has_sibling_id(parent, src.data_id) or src.parent is parent
        return Plan("refuse", route + ":id-argument-for-copy", call=call, exc=E_VALUE + E_UNIQUE if collide else E_VALUE)

    def _op_copy_to(self, src_ref, target_ref, add_self, before, deep):
        route = "copy_to" + ("" if add_self else ":children") + (":deep" if deep else "")
        mt = self.model
        src = self.node(src_ref)
        if src is None:
            return Plan("na", route)
        rsrc = self.real(src)
        target = self.parent_of(target_ref)
        rtarget = self.real(target)
        if not add_self:
            before = None
        mb, rb = self.decode_before(target, before)
        call = lambda: rsrc.copy_to(rtarget, add_self=add_self, before=rb, deep=deep)  # noqa: E731
        if deep and mt.is_inside(target, src):
            route += ":into-own-branch"  # the copy shows the branch as it was before the call
        if add_self:
            res = resolve_before(target, mb)
            if res[0] == "unspecified":
                return Plan("unspecified", route + ":" + res[1], call=call)
            collide = mt.has_sibling_id(target, src.data_id)
            if res[0] == "invalid":
                return Plan("refuse", route + ":before-not-a-child", call=call, exc=E_POSITION + E_UNIQUE if collide else E_POSITION)
            if collide:
                return Plan("refuse", route + ":collision", call=call, exc=E_UNIQUE)

            def apply():
                n = mt.copy_branch(src, bool(deep), kind_override=self._top_copy_kind(src))
                mt.insert(target, n, res[1])
                return n

            return Plan("valid", route, call=call, apply=apply)
        if not src.children:
            return Plan("refuse", route + ":no-children", call=call, exc=E_VALUE)
        if any(mt.has_sibling_id(target, c.data_id) for c in src.children):
            # (target is src: the children collide with themselves)
            return Plan("refuse", route + ":collision", call=call, exc=E_UNIQUE)

        def apply2():
            # all copies are taken before the first one is inserted (target may be inside a copied branch)
            copies = [mt.copy_branch(c, bool(deep), kind_override=self._top_copy_kind(c)) for c in list(src.children)]
            for n in copies:
                mt.insert(target, n, None)
            return copies[0]

        return Plan("valid", route, call=call, apply=apply2)

    def _op_copy_from2(self, src_ref, target_ref, add_self, before, deep):
        """<node of the second tree>.copy_to(<target in tree 1>, ...)  (cross-tree copy_to)"""
        route = "copy_from2" + ("" if add_self else ":children") + (":deep" if deep else "")
        mt = self.model
        src, rsrc = self._src(1, src_ref)
        if src is None:
            return Plan("na", route)
        target = self.parent_of(target_ref)
        rtarget = self.real(target)
        if not add_self:
            before = None
        mb, rb = self.decode_before(target, before)
        call = lambda: rsrc.copy_to(rtarget, add_self=add_self, before=rb, deep=deep)  # noqa: E731
        if add_self:
            res = resolve_before(target, mb)
            if res[0] == "unspecified":
                return Plan("unspecified", route + ":" + res[1], call=call)
            collide = mt.has_sibling_id(target, src.data_id)
            if res[0] == "invalid":
                return Plan("refuse", route + ":before-not-a-child", call=call, exc=E_POSITION + E_UNIQUE if collide else E_POSITION)
            if collide:
                return Plan("refuse", route + ":collision", call=call, exc=E_UNIQUE)

            def apply():
                n = mt.copy_branch(src, bool(deep), kind_override=self._top_copy_kind(src))
                mt.insert(target, n, res[1])
                return n

            return Plan("valid", route, call=call, apply=apply)
        if not src.children:
            return Plan("refuse", route + ":no-children", call=call, exc=E_VALUE)
        if any(mt.has_sibling_id(target, c.data_id) for c in src.children):
            return Plan("refuse", route + ":collision", call=call, exc=E_UNIQUE)

        def apply2():
            first = None
            for c in list(src.children):
                n = mt.copy_branch(c, bool(deep), kind_override=self._top_copy_kind(c))
                mt.insert(target, n, None)
                first = first or n
            return first

        return Plan("valid", route, call=call, apply=apply2)

    def _op_own_copy_to(self, target_ref, deep):
        """<the tree itself>.copy_to(<target in the same tree>, deep=...)"""
        return self._op_tree2_copy_to(target_ref, deep, own=True)

    def _op_add_own_tree(self, parent_ref, before, deep):
        """<parent>.add(<the tree the parent lives in>, ...)"""
        return self._op_add_tree(parent_ref, before, deep, own=True)

    def _op_shortcut_tree(self, how, anchor_ref, deep):
        """<anchor>.append_child / prepend_child / prepend_sibling / append_sibling(<second tree>[, deep=...]):
        the shortcut methods with a whole tree as child (deep defaults to true for a tree, as for add_child)"""
        route = f"{how}(tree)"
        mt = self.model
        anchor = self.node(anchor_ref)
        if anchor is None or self.typed:
            return Plan("na", route)
        ranchor = self.real(anchor)
        kw = {}
        if deep is not None:
            kw["deep"] = deep
        call = lambda: getattr(ranchor, how)(self.tree2, **kw)  # noqa: E731
        tops = list(self.model2.root.children)
        if not tops:
            return Plan("unspecified", route + ":empty-source", call=call)
        if how in ("append_child", "prepend_child"):
            parent = anchor
            pos = None if (how == "append_child" or not anchor.children) else 0
        else:
            parent = anchor.parent
            i = [k for k, c in enumerate(parent.children) if c is anchor][0]
            pos = i if how == "prepend_sibling" else (i + 1 if i + 1 < len(parent.children) else None)
        if any(mt.has_sibling_id(parent, t.data_id) for t in tops):
            return Plan("refuse", route + ":collision", call=call, exc=E_UNIQUE)
        dp = True if deep is None else bool(deep)

        def apply():
            copies = [mt.copy_branch(t, dp, kind_override=self._top_copy_kind(t)) for t in tops]
            for k, n in enumerate(copies):
                mt.insert(parent, n, None if pos is None else pos + k)
            return None

        p = Plan("valid", route, call=call, apply=apply)
        p.note = "no-return-check"
        return p

    def _op_tree2_copy_to(self, target_ref, deep, own=False):
        """<second tree>.copy_to(<target in tree 1>, deep=...)"""
        route = ("own.copy_to" if own else "tree2.copy_to") + ("" if deep is None or deep else ":shallow")
        mt = self.model
        target = self.parent_of(target_ref)
        rtarget = self.real(target)
        kw = {}
        if deep is not None:
            kw["deep"] = deep
        srctree = self.tree if own else self.tree2
        call = lambda: srctree.copy_to(rtarget, **kw)  # noqa: E731
        tops = list((self.model if own else self.model2).root.children)
        if not tops:
            return Plan("unspecified", route + ":empty-source", call=call)
        if any(mt.has_sibling_id(target, t.data_id) for t in tops):
            return Plan("refuse", route + ":collision", call=call, exc=E_UNIQUE)
        dp = True if deep is None else bool(deep)

        def apply():
            copies = [mt.copy_branch(t, dp, kind_override=self._top_copy_kind(t)) for t in tops]
            for n in copies:
                mt.insert(target, n, None)
            return None

        p = Plan("valid", route, call=call, apply=apply)
        p.note = "no-return-check"
        return p

    def _op_add_tree(self, parent_ref, before, deep, own=False):
        route = "add_own_tree" if own else "add_tree"
        mt = self.model
        parent = self.parent_of(parent_ref)
        rparent = self.real(parent)
        mb, rb = self.decode_before(parent, before)
        kw = {}
        if deep is not None:
            kw["deep"] = deep
        srctree = self.tree if own else self.tree2
        call = lambda: rparent.add(srctree, before=rb, **kw)  # noqa: E731
        tops = list((self.model if own else self.model2).root.children)
        if not tops:
            return Plan("unspecified", route + ":empty-source", call=call)
        res = resolve_before(parent, mb)
        if res[0] == "unspecified":
            return Plan("unspecified", route + ":" + res[1], call=call)
        collide = any(mt.has_sibling_id(parent, t.data_id) for t in tops)
        if res[0] == "invalid":
            return Plan("refuse", route + ":before-not-a-child", call=call, exc=E_POSITION + E_UNIQUE if collide else E_POSITION)
        if collide:
            return Plan("refuse", route + ":collision", call=call, exc=E_UNIQUE)
        dp = True if deep is None else bool(deep)

        def apply():
            pos = res[1]
            copies = [mt.copy_branch(t, dp, kind_override=self._top_copy_kind(t)) for t in tops]
            for i, n in enumerate(copies):
                mt.insert(parent, n, None if pos is None else pos + i)
            return None

        p = Plan("valid", route, call=call, apply=apply)
        p.note = "no-return-check"
        return p

    # ---- move / remove -------------------------------------------------------------------------------
    def _op_move(self, ref, target_ref, before):
        route = "move"
        mt = self.model
        n = self.node(ref)
        if n is None:
            return Plan("na", route)
        rn = self.real(n)
        if target_ref == -2:
            call = lambda: rn.move_to(self.tree2)  # noqa: E731
            return Plan("refuse", route + ":cross-tree", call=call, exc=E_NOTIMPL)
        if target_ref == -3:
            # a NODE of the second tree as target (the same refusal as for the tree object itself)
            tops2 = list(self.tree2.children)
            if not tops2:
                return Plan("na", route)
            call = lambda: rn.move_to(tops2[0])  # noqa: E731
            return Plan("refuse", route + ":cross-tree-node", call=call, exc=E_NOTIMPL)
        target = self.parent_of(target_ref)
        rtarget = self.real(target)
        mb, rb = self.decode_before(target, before)
        call = lambda: rn.move_to(rtarget, before=rb)  # noqa: E731
        if self.typed:
            return Plan("refuse", route + ":typed", call=call, exc=E_NOTIMPL)
        if mt.is_inside(target, n):
            return Plan("refuse", route + ":into-own-branch", call=call, exc=E_TARGET + E_UNIQUE)
        if mb is n:
            return Plan("unspecified", route + ":before-self", call=call)
        same_parent = target is n.parent
        if same_parent and isinstance(mb, int) and not isinstance(mb, bool) and mb != 0:
            return Plan("unspecified", route + ":int-position-in-same-parent")
        # evaluate `before` against the target's children without the node
        others = [c for c in target.children if c is not n]
        if mb is None or mb is False:
            pos = None
        elif mb is True or (isinstance(mb, int) and mb == 0):
            pos = 0
        elif isinstance(mb, int):
            if not (0 < mb < len(others)):
                return Plan("unspecified", route + ":int position without an existing child of that index", call=call)
            pos = mb
        else:
            idx = [i for i, c in enumerate(others) if c is mb]
            if not idx:
                collide = mt.has_sibling_id(target, n.data_id, ignore=(n,))
                return Plan("refuse", route + ":before-not-a-child", call=call, exc=E_POSITION + E_UNIQUE if collide else E_POSITION)
            pos = idx[0]
        if mt.has_sibling_id(target, n.data_id, ignore=(n,)):
            return Plan("refuse", route + ":collision", call=call, exc=E_UNIQUE)

        def apply():
            mt.detach(n)
            mt.insert(target, n, pos)
            return None

        p = Plan("valid", route + (":same-parent" if same_parent else ""), call=call, apply=apply)
        p.note = "no-return-check"
        return p

    def _op_remove(self, ref, keep_children, with_clones):
        route = "remove" + (":keep_children" if keep_children else "") + (":with_clones" if with_clones else "")
        mt = self.model
        n = self.node(ref)
        if n is None:
            return Plan("na", route)
        rn = self.real(n)
        kw = {}
        if keep_children:
            kw["keep_children"] = True
        if with_clones:
            kw["with_clones"] = True
        call = lambda: rn.remove(**kw)  # noqa: E731
        victims = mt.group(n.data_id) if with_clones else [n]

        def is_victim(x):
            return any(x is v for v in victims)

        if keep_children:
            if self.typed and any(v.children for v in victims):
                return Plan("unspecified", route + ":typed-keep_children", call=call)

            def remaining(nodes):
                out = []
                for c in nodes:
                    if is_victim(c):
                        out.extend(remaining(c.children))
                    else:
                        out.append(c)
                return out

            tops = [v for v in victims if not is_victim(v.parent)]
            parents = []
            for v in tops:
                if not any(v.parent is p for p in parents):
                    parents.append(v.parent)
            for p in parents:
                ids = [c.data_id for c in remaining(p.children)]
                if len(set(ids)) != len(ids):
                    return Plan("refuse", route + ":collision", call=call, exc=E_UNIQUE)
            relaxed = []

            def apply():
                for p in parents:
                    old = [c for c in p.children if not is_victim(c)]
                    final = remaining(p.children)
                    for c in final:
                        c.parent = p
                    p.children = final
                    relaxed.append((p, old))
                for v in victims:
                    v.parent = None
                    v.children = []
                return None

            pl = Plan("valid", route + (":nested" if len(tops) < len(victims) else ""), call=call, apply=apply)
            pl.note = "no-return-check"
            pl.relaxed = ("unnest", relaxed)
            return pl

        def apply2():
            for v in victims:
                if v.parent is None:
                    continue
                x, gone = v.parent, False
                while x is not None and x is not mt.root:
                    if x.parent is None:
                        gone = True
                        break
                    x = x.parent
                if gone:
                    continue  # already left with an enclosing victim
                mt.detach(v)
            return None

        pl = Plan("valid", route, call=call, apply=apply2)
        pl.note = "no-return-check"
        return pl

    def _op_remove_children(self, ref):
        n = self.node(ref)
        if n is None:
            return Plan("na", "remove_children")
        rn = self.real(n)

        def apply():
            for c in n.children:
                c.parent = None
            n.children = []

        p = Plan("valid", "remove_children", call=lambda: rn.remove_children(), apply=apply)
        p.note = "no-return-check"
        return p

    def _op_clear(self):
        mt = self.model

        def apply():
            mt.root.children = []

        p = Plan("valid", "clear", call=lambda: self.tree.clear(), apply=apply)
        p.note = "no-return-check"
        return p

    def _op_del(self, ref, keykind):
        route = "del:" + keykind
        mt = self.model
        n = self.node(ref)
        tree = self.tree
        if keykind == "absent" or n is None:
            def call():
                del tree["no-such-key-anywhere"]

            return Plan("refuse", "del:absent", call=call, exc=E_KEY)
        rn = self.real(n)
        if keykind == "node_id":
            key = rn.node_id
            victim = n
        elif keykind == "data_id":
            key = n.data_id
            if not isinstance(key, (int, str)):
                return Plan("na", route)
            if isinstance(key, int) and any(r.node_id == key for r in walk(tree).pre):
                return Plan("unspecified", route + ":int-key-also-a-node_id")
            grp = mt.group(key)
            victim = n if len(grp) == 1 else None
        else:
            key = n.data
            if self.fl.name in ("dict_explicit",):
                return Plan("na", route)
            if isinstance(key, int) and any(r.node_id == key for r in walk(tree).pre):
                return Plan("unspecified", route + ":int-key-also-a-node_id")
            kid = self.fl.auto_id(self.fl.label(key), key)
            if isinstance(key, (int, str)) and mt.group(key):
                grp = mt.group(key)  # data that is also somebody's data_id
            else:
                grp = mt.group(kid)
            if not grp:
                def call0():
                    del tree[key]

                return Plan("refuse", route + ":absent", call=call0, exc=E_KEY)
            victim = grp[0] if len(grp) == 1 else None

        def call():
            del tree[key]

        if victim is None:
            return Plan("refuse", route + ":ambiguous", call=call, exc=E_AMBIG)

        def apply():
            mt.detach(victim)

        p = Plan("valid", route, call=call, apply=apply)
        p.note = "no-return-check"
        return p

    # ---- sort ----------------------------------------------------------------------------------------------
    def _op_sort(self, ref, keyname, reverse, deep):
        route = "sort" + (":deep" if deep or (deep is None and ref < 0) else "") + (":reverse" if reverse else "")
        mt = self.model
        rkey, mkey = SORT_KEYS[keyname]
        on_tree = ref is None or ref < 0
        start = mt.root if on_tree else self.node(ref)
        if start is None:
            return Plan("na", route)
        kw = {}
        if rkey is not None:
            kw["key"] = rkey
        if reverse:
            kw["reverse"] = True
        if deep is not None:
            kw["deep"] = deep
        if on_tree:
            call = lambda: self.tree.sort(**kw)  # noqa: E731
            dp = True if deep is None else bool(deep)
        else:
            rstart = self.real(start)
            call = lambda: rstart.sort_children(**kw)  # noqa: E731
            dp = bool(deep)
        affected = []

        def apply():
            def rec(n):
                n.children.sort(key=mkey, reverse=bool(reverse))
                affected.append(n)
                if dp:
                    for c in n.children:
                        rec(c)

            rec(start)

        p = Plan("valid", route, call=call, apply=apply)
        p.note = "no-return-check"
        p.relaxed = ("sort", affected, mkey, bool(reverse))
        return p

    # ---- set_data / rename -------------------------------------------------------------------------------------
    def _op_set_data(self, ref, label, did, with_clones, fresh=False):
        route = "set_data" + (":data" if label is not None else "") + (":id" if did is not None else "") + f":with_clones={with_clones}"
        mt = self.model
        n = self.node(ref)
        if n is None:
            return Plan("na", route)
        rn = self.real(n)
        if label == "=":
            # a new, equal-but-distinct data object for the node's current label (data changes, id does not)
            label = self.fl.label(n.data)
            fresh = True
        data = self.fl.data(label, fresh=fresh) if label is not None else None
        if did == "=":
            did = n.data_id  # explicitly pass the id the node already has
        kw = {}
        if did is not None:
            kw["data_id"] = did
        if with_clones is not None:
            kw["with_clones"] = with_clones
        call = lambda: rn.set_data(data, **kw)  # noqa: E731
        if data is None and did is None:
            return Plan("refuse", "set_data:nothing", call=call, exc=E_VALUE)
        group = mt.group(n.data_id)
        if len(group) > 1 and with_clones is None:
            return Plan("refuse", "set_data:clones-need-decision", call=call, exc=E_AMBIG)
        new_data = data if (data is not None and data is not n.data) else None
        if new_data is not None and did is None:
            d2 = self.fl.explicit_default(label)
            new_id = d2 if d2 is not None else self.fl.auto_id(label, data)
        else:
            new_id = did
        if new_id is not None and new_id == n.data_id:
            new_id = None
        targets = group if with_clones else [n]
        if new_id is not None:
            for t in targets:
                if mt.has_sibling_id(t.parent, new_id, ignore=tuple(targets)):
                    return Plan("refuse", route + ":collision", call=call, exc=E_UNIQUE)
            # two targets below one parent would collide with each other: impossible (sibling uniqueness)
        if new_data is None and new_id is None:
            # nothing changes (same object / same id)
            p = Plan("valid", route + ":no-op", call=call, apply=lambda: None)
            p.note = "no-return-check"
            return p

        def apply():
            for t in targets:
                if new_id is not None:
                    t.data_id = new_id
                if new_data is not None:
                    t.data = new_data

        p = Plan("valid", route, call=call, apply=apply)
        p.note = "no-return-check"
        return p

    def _op_rename(self, ref, label):
        mt = self.model
        n = self.node(ref)
        if n is None:
            return Plan("na", "rename")
        rn = self.real(n)
        call = lambda: rn.rename(label)  # noqa: E731
        if not isinstance(n.data, str):
            return Plan("refuse", "rename:non-string-data", call=call, exc=E_VALUE)
        group = mt.group(n.data_id)
        if len(group) > 1:
            return Plan("refuse", "rename:clones-need-decision", call=call, exc=E_AMBIG)
        if label == n.data:
            new_id = None
        else:
            new_id = hash(label)
        if new_id is not None and new_id != n.data_id and mt.has_sibling_id(n.parent, new_id, ignore=(n,)):
            return Plan("refuse", "rename:collision", call=call, exc=E_UNIQUE)

        def apply():
            if label is not n.data:
                n.data = label
                n.data_id = hash(label)

        p = Plan("valid", "rename", call=call, apply=apply)
        p.note = "no-return-check"
        return p

    # ---- meta ----------------------------------------------------------------------------------------------------
    def _op_meta(self, ref, sub, key, value):
        n = self.node(ref)
        if n is None:
            return Plan("na", "meta")
        rn = self.real(n)
        route = "meta:" + sub
        if sub == "set":
            def apply():
                if value is None:
                    if n.meta:
                        n.meta.pop(key, None)
                else:
                    n.meta = dict(n.meta or {})
                    n.meta[key] = value
                n.meta = n.meta or None

            call = lambda: rn.set_meta(key, value)  # noqa: E731
        elif sub == "clear":
            def apply():
                if key is None:
                    n.meta = None
                elif n.meta:
                    n.meta.pop(key, None)
                    n.meta = n.meta or None

            call = lambda: rn.clear_meta(key)  # noqa: E731
        else:
            values = dict(value or {})
            passed = dict(values)
            replace = sub == "replace"

            def apply():
                if replace:
                    n.meta = dict(values) or None
                else:
                    m = dict(n.meta or {})
                    m.update(values)
                    n.meta = m or None

            def call():
                rn.update_meta(passed, replace=replace)
                passed["mutated-later"] = 1  # later mutation of the passed dict must not be visible

        p = Plan("valid", route, call=call, apply=apply)
        p.note = "no-return-check"
        return p

    # ---- filter -----------------------------------------------------------------------------------------------------
    def _op_filter(self, accept, skip0=()):
        mt = self.model
        fl = self.fl

        def labels(items):  # an int stands for "the label of that node" (resolved now)
            out = set()
            for x in items:
                if isinstance(x, int) and not isinstance(x, bool):
                    m = self.node(x)
                    if m is not None:
                        out.add(fl.label(m.data))
                else:
                    out.add(x)
            return out

        accept = labels(accept)
        skip0 = labels(skip0)

        def pred(node):
            lab = fl.label(node.data)
            if lab in skip0:
                return SkipBranch(and_self=False)  # documented: keep the node, drop what is below it
            return lab in accept

        def apply():
            def rec(n):
                kept = []
                for c in n.children:
                    lab = fl.label(c.data)
                    if lab in skip0:
                        for g in c.children:
                            g.parent = None
                        c.children = []
                        kept.append(c)
                    elif rec(c) or lab in accept:
                        kept.append(c)
                    else:
                        c.parent = None
                n.children = kept
                return bool(kept)

            rec(mt.root)

        p = Plan("valid", "filter", call=lambda: self.tree.filter(pred), apply=apply)
        p.note = "no-return-check"
        return p

    # ------------------------------------------------------------------------------------
    def observe_state(self):
        snap = snapshot(self.tree, self.uids, label=lambda n: repr(n.data))
        try:
            probe = index_probe(self.tree)
        except Exception as e:  # noqa: BLE001
            probe = ("probe-raised", repr(e))
        snap2 = snapshot(self.tree2, self.uids, label=lambda n: repr(n.data))
        return (snap, probe, snap2)

    def step(self, op, check_unchanged=True) -> Outcome:
        """Run one op on the real tree and the model and report what happened."""
        self.steps += 1
        plan = self.plan(op)
        out = Outcome(op, plan)
        if plan.status == "na" or plan.call is None:
            return out
        before = self.observe_state() if (check_unchanged and plan.status in ("refuse", "unspecified")) else None
        tree2_before = snapshot(self.tree2, self.uids, label=lambda n: repr(n.data)) if plan.status == "valid" else None
        try:
            out.retval = plan.call()
        except Exception as e:  # noqa: BLE001
            out.raised = e
        route = plan.route
        if plan.status == "valid":
            if out.raised is not None:
                out.events.append(("raised", f"valid-op-raised:{route}:{type(out.raised).__name__}", repr(out.raised)[:200]))
            else:
                old_pairs = dict(self.real_of)
                new = plan.apply()
                alive = {m.uid for m in self.model.preorder()}
                out.expected_gone = [r for uid, r in old_pairs.items() if uid not in alive]
                if plan.relaxed:
                    self._relax(plan, out)
                res = None if out.events else self.compare()
                if res is not None:
                    out.events.append(("effect", f"effect:{route}:{res[0]}", res[1]))
                elif not out.events and plan.note != "no-return-check" and new is not None:
                    exp_r = self.real_of.get(new.uid)
                    if out.retval is not exp_r:
                        out.events.append(("effect", f"effect:{route}:return-value", repr(out.retval)))
                if tree2_before is not None and snapshot(self.tree2, self.uids, label=lambda n: repr(n.data)) != tree2_before:
                    out.events.append(("source-changed", f"source-tree-modified:{route}", None))
        elif plan.status == "refuse":
            if out.raised is None:
                cat = "unrefused-collision" if plan.exc == E_UNIQUE or route.endswith(":collision") else "unrefused"
                out.events.append((cat, f"not-refused:{route}", None))
            elif not isinstance(out.raised, plan.exc):
                out.events.append(("wrong-exception", f"refused-with-unexpected-exception:{route}:{type(out.raised).__name__}", repr(out.raised)[:200]))
            if out.raised is not None and before is not None:
                after = self.observe_state()
                out.state_changed = after != before
                if out.state_changed:
                    what = "tree" if after[0] != before[0] else ("index" if after[1] != before[1] else "source-tree")
                    out.events.append(("changed-after-refusal", f"state-changed-after-refusal:{route}:{what}", None))
        elif plan.status == "unspecified" and out.raised is not None and before is not None:
            # the documentation is silent, but the library refused: then nothing may have changed
            after = self.observe_state()
            out.state_changed = after != before
            if out.state_changed:
                what = "tree" if after[0] != before[0] else ("index" if after[1] != before[1] else "source-tree")
                out.events.append(("changed-after-refusal", f"state-changed-after-refusal:{route}:{what}", None))
        if plan.status != "valid" or out.events:
            self.resync()
        self._note_ever()
        return out

    def _relax(self, plan, out):
        """Where the documentation leaves the order open, check the documented
        relation and adopt the real order into the model."""
        if plan.relaxed[0] == "unnest":
            # "all children will be moved one level up, so they become siblings":
            # the position of the un-nested children is not documented; the old
            # siblings must keep their relative order.
            for p, old in plan.relaxed[1]:
                if p.parent is None and p is not self.model.root:
                    continue  # parent itself left the tree meanwhile (nested victims)
                rp = self.real(p) if p is not self.model.root else self.tree
                rkids = list(rp.children)
                by_real = {id(self.real_of[m.uid]): m for m in p.children if m.uid in self.real_of}
                if len(rkids) != len(p.children) or any(id(r) not in by_real for r in rkids):
                    return  # compare() will report the difference
                order = [by_real[id(r)] for r in rkids]
                still = [m for m in old if any(m is x for x in p.children)]
                if [m for m in order if any(m is x for x in still)] != still:
                    out.events.append(("effect", f"effect:{plan.route}:old-siblings-reordered", None))
                    return
                p.children = order
        elif plan.relaxed[0] == "sort":
            _, affected, mkey, reverse = plan.relaxed
            for p in affected:
                rp = self.real(p) if p is not self.model.root else self.tree
                rkids = list(rp.children)
                by_real = {id(self.real_of[m.uid]): m for m in p.children if m.uid in self.real_of}
                if len(rkids) != len(p.children) or any(id(r) not in by_real for r in rkids):
                    return
                order = [by_real[id(r)] for r in rkids]
                keys = [mkey(m) for m in order]
                ok = all((a >= b) if reverse else (a <= b) for a, b in zip(keys, keys[1:]))
                if not ok:
                    out.events.append(("effect", f"effect:{plan.route}:not-sorted", {"keys": [str(k) for k in keys]}))
                    return
                p.children = order
