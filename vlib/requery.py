"""Query - mutate - query again, on ONE tree object.

Several properties are statements about read-only queries (traversal, search, relations,
typed queries, rendering, exports).  A realistic way to break them is to remember an earlier
answer (a cache keyed by something a later mutation does not change: the node count, the
parent's number of children, ...).  Such a defect is invisible to a check that builds a tree
and queries it once.  This helper drives a generated mutation history (vlib.ops.Engine) and
evaluates the check's own oracle on the same tree before the first operation, after a
generated subset of the steps, and after the last one.

The subset matters: a cache that is rebuilt whenever the node count changes is refreshed by a
query after *every* step, but goes stale over "remove one, add one, query".
"""

from __future__ import annotations

from hypothesis import strategies as st

from vlib import gen_ops
from vlib.observe import walk
from vlib.ops import Engine

# weights by repetition: a generated move is refused three times out of four (own branch, collisions, positions:
# refusals are wanted, too), clear / remove_children always succeed and leave little to query afterwards
MUTATIONS = ["move"] * 5 + ["remove"] * 2 + ["add"] * 2 + ["add_node"] * 2 + ["sort"] * 2 + ["set_data", "rename", "prepend_sibling",
             "copy_to", "filter", "del", "remove_children"]


@st.composite
def cases(draw, typed=None, max_ops=8, max_nodes=10, kinds=None, explicit_ids=False, min_nodes=4, big=None):
    ty = draw(st.sampled_from([False, False, True])) if typed is None else typed  # typed trees do not support move_to
    kinds = list(kinds or MUTATIONS)
    if big is None:
        big = (20, 130)  # the oracle runs several times per case
    # half of the cases concentrate on one kind of mutation: a remembered answer typically survives exactly one
    # kind of operation (the one whose code path forgets to invalidate it)
    focus = draw(st.sampled_from([None] + sorted(set(kinds))))
    if focus is not None and draw(st.booleans()):
        kinds = [focus] * (2 * len(kinds)) + kinds
    case = draw(gen_ops.histories(typed=ty, max_ops=max_ops, max_nodes=max_nodes, explicit_ids=explicit_ids,
                                  kinds=kinds, min_nodes=min(min_nodes, max_nodes), min_ops=min(3, max_ops), big=big, invalid_bias=draw(st.sampled_from([False, False, True]))))
    # at which steps the oracle is evaluated again (always before the first and after the last step)
    # (after every step: catches what a single operation fails to invalidate; sparse: catches answers that are
    # refreshed by a coarse criterion such as a changed node count)
    dens = draw(st.sampled_from([[1], [1], [0, 1], [0, 0, 1], [0]]))
    case["q"] = draw(st.lists(st.sampled_from(dens), min_size=len(case["ops"]), max_size=len(case["ops"])))
    return case


def run(case, rec, check, *, flavour="str"):
    """check(tree, rec, engine) evaluates the property's oracle on the live tree."""
    eng = Engine(case["spec"], typed=bool(case.get("typed")), flavour=flavour, spec2=case.get("spec2"))
    # only a tree whose reachable structure cannot be walked (cycle, shared node) is abandoned: the
    # reference answers are computed from that structure
    if walk(eng.tree).problems:
        rec.cls("abandoned:structure-cannot-be-walked(C01)")
        return
    check(eng.tree, rec, eng)
    if rec.failed:
        return
    q = case.get("q") or []
    ops = case["ops"]
    queried = 1
    changed_between = 0
    gaps = 0
    for i, op in enumerate(ops):
        out = eng.step(op, check_unchanged=False)
        if out.plan.status == "valid" and out.raised is None:
            changed_between += 1
            rec.cls("effective:" + out.plan.route.split(":")[0])
        if walk(eng.tree).problems:
            rec.cls("abandoned:structure-cannot-be-walked(C01)")
            return
        if i == len(ops) - 1 or (i < len(q) and q[i]):
            if changed_between >= 2:
                gaps += 1
            changed_between = 0
            check(eng.tree, rec, eng)
            queried += 1
            if rec.failed:
                return
    rec.cls("requery")
    rec.cls(f"queries={min(queried, 6)}")
    if gaps:
        rec.cls("query-after->=2-effective-mutations")
    return queried
