"""Deterministic cooperative scheduler for real threads (DESIGN 2.6, C18).

Exactly one worker thread runs at a time; control returns to the scheduler only
at *yield points*: the boundaries of `with tree:` (through SchedTree), explicit
yields between a writer's mutation steps, and user callbacks / stream writes
that the snapshot operations invoke while they read.  A run is a pure function
of the schedule (a list of ints: which runnable thread goes next).
"""

from __future__ import annotations

import threading

from vlib import core  # noqa: F401

from nutree import Tree, TypedTree

WATCHDOG_S = 120
_CURRENT = {"sched": None}


class Abort(BaseException):
    pass


class TState:
    def __init__(self, name, fn):
        self.name = name
        self.fn = fn
        self.go = threading.Semaphore(0)
        self.done = False
        self.blocked_on = None
        self.times_blocked = 0
        self.result = None
        self.exc = None
        self.thread = None


class Sched:
    def __init__(self, schedule=()):
        self.schedule = list(schedule)
        self.pos = 0
        self.threads: list[TState] = []
        self.ctl = threading.Semaphore(0)
        self.locks = {}  # id(tree) -> [owner TState, count]
        self.trace = []  # branching factor at every decision
        self.choices = []
        self.log = []
        self.aborting = False
        self.problem = None  # "deadlock" | "hang"
        self.by_ident = {}

    # ---- set-up ---------------------------------------------------------------------
    def spawn(self, name, fn):
        t = TState(name, fn)
        self.threads.append(t)
        return t

    def _body(self, t: TState):
        self.by_ident[threading.get_ident()] = t
        t.go.acquire()
        try:
            if not self.aborting:
                t.result = t.fn()
        except Abort:
            pass
        except BaseException as e:  # noqa: BLE001
            t.exc = e
        t.done = True
        self.ctl.release()

    def me(self) -> TState | None:
        return self.by_ident.get(threading.get_ident())

    # ---- scheduler loop ----------------------------------------------------------------
    def run(self):
        _CURRENT["sched"] = self
        try:
            for t in self.threads:
                t.thread = threading.Thread(target=self._body, args=(t,), daemon=True)
                t.thread.start()
            while True:
                runnable = [t for t in self.threads if not t.done and t.blocked_on is None]
                if not runnable:
                    if all(t.done for t in self.threads):
                        break
                    self.problem = "deadlock"
                    break
                self.trace.append(len(runnable))
                if self.pos < len(self.schedule):
                    c = self.schedule[self.pos] % len(runnable)
                else:
                    c = 0
                self.pos += 1
                self.choices.append(c)
                pick = runnable[c]
                pick.go.release()
                if not self.ctl.acquire(timeout=WATCHDOG_S):
                    self.problem = "hang"
                    break
            if self.problem:
                self.aborting = True
                for t in self.threads:
                    if not t.done:
                        t.go.release()
            for t in self.threads:
                t.thread.join(timeout=5)
        finally:
            _CURRENT["sched"] = None

    # ---- called from worker threads ---------------------------------------------------------
    def yield_point(self, tag=""):
        t = self.me()
        if t is None:
            return
        self.log.append((t.name, tag))
        self.ctl.release()
        t.go.acquire()
        if self.aborting:
            raise Abort()

    def acquire(self, tree):
        t = self.me()
        if t is None:
            return
        self.yield_point("lock?")
        lk = self.locks.setdefault(id(tree), [None, 0])
        while lk[0] is not None and lk[0] is not t:
            t.blocked_on = id(tree)
            t.times_blocked += 1
            self.log.append((t.name, "blocked"))
            self.ctl.release()
            t.go.acquire()
            if self.aborting:
                raise Abort()
        lk[0] = t
        lk[1] += 1

    def release(self, tree):
        t = self.me()
        if t is None:
            return
        lk = self.locks.setdefault(id(tree), [None, 0])
        if lk[0] is t:
            lk[1] -= 1
            if lk[1] == 0:
                lk[0] = None
                for o in self.threads:
                    if o.blocked_on == id(tree):
                        o.blocked_on = None
        self.yield_point("unlock")


def current():
    return _CURRENT["sched"]


def yield_point(tag=""):
    s = _CURRENT["sched"]
    if s is not None:
        s.yield_point(tag)


class SchedTree(Tree):
    """Tree whose `with tree:` first asks the scheduler's re-entrant lock model
    (so that a blocked thread is known to the scheduler) and then takes the
    real lock.  All of nutree's own `with self:` go through here."""

    def __enter__(self):
        s = _CURRENT["sched"]
        if s is not None:
            s.acquire(self)
        return super().__enter__()

    def __exit__(self, type, value, traceback):
        r = super().__exit__(type, value, traceback)
        s = _CURRENT["sched"]
        if s is not None:
            s.release(self)
        return r


class SchedTypedTree(TypedTree):
    """same for typed trees"""

    def __enter__(self):
        s = _CURRENT["sched"]
        if s is not None:
            s.acquire(self)
        return super().__enter__()

    def __exit__(self, type, value, traceback):
        r = super().__exit__(type, value, traceback)
        s = _CURRENT["sched"]
        if s is not None:
            s.release(self)
        return r


def next_schedule(choices, trace):
    """Odometer over the decision tree: the lexicographically next schedule
    after `choices` given the branching factors `trace`; None when exhausted."""
    c = list(choices)
    i = len(c) - 1
    while i >= 0:
        if c[i] + 1 < trace[i]:
            return c[:i] + [c[i] + 1]
        i -= 1
    return None
