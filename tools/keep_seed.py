#!/venv/bin/python
"""tools/keep_seed.py <outdir> <k> <caught_by: e.g. 'C06' or 'none'> [note]
Copy a validated seeded change into /verif/seeded/<PROP>-m<k>/ (patch.diff, demo.py, meta.json)."""
import json, os, shutil, sys
out, k, caught = sys.argv[1], sys.argv[2], sys.argv[3]
note = sys.argv[4] if len(sys.argv) > 4 else ""
m = json.load(open(os.path.join(out, f"m{k}.json")))
pid = m["property"]
dst = f"/verif/seeded/{pid}-{os.environ.get('SEED_TAG', '')}m{k}"
os.makedirs(dst, exist_ok=True)
shutil.copy(os.path.join(out, f"m{k}.diff"), os.path.join(dst, "patch.diff"))
shutil.copy(os.path.join(out, f"m{k}_demo.py"), os.path.join(dst, "demo.py"))
meta = {
    "property": pid,
    "summary": m.get("summary"),
    "needs_to_manifest": m.get("needs"),
    "files": m.get("files"),
    "origin": "independent sub-agent given only the property text and a scratch worktree of /repo",
    "validated": "tools/seedcheck.sh: in a scratch copy of /repo the demo exits 0 on the unchanged tree, the patch applies, the full pytest suite passes (72 passed), the demo exits non-zero with the patch",
    "ran": f"tools/seedcheck.sh <dir> {k} {pid} (quick tier, NUTREE_SRC=<scratch copy with patch>)",
    "caught_by_quick": [c for c in caught.split(",") if c and c != "none"],
    "note": note,
}
json.dump(meta, open(os.path.join(dst, "meta.json"), "w"), indent=1)
print("kept", dst)
