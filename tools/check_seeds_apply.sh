#!/bin/bash
# verify that every seeded/*/patch.diff applies to /repo's working tree with plain `git apply`;
# with --rebase, patches that only apply with fuzz (patch -p1) are regenerated against the current tree
for d in /verif/seeded/*/; do
  n=$(basename $d)
  if git -C /repo apply --check "$d/patch.diff" 2>/dev/null; then echo "ok      $n"; continue; fi
  if [ "$1" = "--rebase" ]; then
    tmp=$(mktemp -d); ( cd /repo && git ls-files -z | xargs -0 cp --parents -t $tmp ) 2>/dev/null
    ( cd $tmp && git init -q . && git add -A >/dev/null && git -c user.email=a@b -c user.name=x commit -qm base && (patch -p1 -s --no-backup-if-mismatch < "$d/patch.diff" || git apply -3 "$d/patch.diff") && git diff > "$d/patch.rebased" )
    if [ -s "$d/patch.rebased" ] && git -C /repo apply --check "$d/patch.rebased" 2>/dev/null; then
      [ -f "$d/patch_original.diff" ] || cp "$d/patch.diff" "$d/patch_original.diff"; mv "$d/patch.rebased" "$d/patch.diff"; echo "REBASED $n"
    else echo "FAILED  $n"; rm -f "$d/patch.rebased"; fi
    rm -rf $tmp
  else echo "NOAPPLY $n"; fi
done
