#!/bin/bash
# Validate one seeded mutant and run checks against it, all in a scratch copy (removed afterwards).
#   tools/seedcheck.sh <dir-with-mK.diff> <K> <ID> [<ID>...]      env TIER=quick|thorough
set -u
dir=$(realpath "$1"); k=$2; shift 2
tmp=$(mktemp -d "${TMPDIR:-/tmp}/nutree_seed.XXXXXX")
trap 'rm -rf "$tmp"' EXIT
( cd /repo && git ls-files -z | xargs -0 cp --parents -t "$tmp" ) 2>/dev/null
# working-tree state of tracked files is what cp copies (includes uncommitted edits)
cd "$tmp"
demo="$dir/m${k}_demo.py"; [ -f "$demo" ] || demo="$dir/demo.py"
diff="$dir/m${k}.diff"; [ -f "$diff" ] || diff="$dir/patch.diff"
/venv/bin/python "$demo" >/dev/null 2>&1; clean=$?
git apply --whitespace=nowarn "$diff" 2>/dev/null || git apply -3 --whitespace=nowarn "$diff" 2>/dev/null || patch -p1 -s < "$diff" || { echo "SEED m$k: PATCH-DOES-NOT-APPLY"; exit 3; }
tests=$(/venv/bin/python -m pytest -p no:cacheprovider -x 2>&1 | tail -1)
/venv/bin/python "$demo" >/dev/null 2>&1; mutated=$?
echo "SEED $(basename $dir) m$k: demo-clean-exit=$clean demo-mutant-exit=$mutated tests: $tests"
for id in "$@"; do
  out=$(cd /verif && NUTREE_SRC="$tmp" VERIF_EVIDENCE_DIR="$tmp/evidence" VERIF_OUT_DIR="$tmp/out" ./check "$id" --tier "${TIER:-quick}" 2>&1)
  code=$?
  echo "   == $id exit=$code  $(echo "$out" | grep -c '^VIOLATION') violation line(s)"
  echo "$out" | grep -E '^(FAIL|HARNESS)' | cut -c1-300 | head -${SHOW:-3}
done
