import re,subprocess,shutil,os,sys
# build a mutant diff from python edits: usage mk_mut.py out.diff file old new [file old new ...]
out=sys.argv[1]; args=sys.argv[2:]
tmp=os.path.join(os.environ.get("TMPDIR","/tmp"),"mkmut_work"); shutil.rmtree(tmp,ignore_errors=True); os.makedirs(tmp+"/a"); os.makedirs(tmp+"/b")
shutil.copytree("/repo/nutree", tmp+"/a/nutree"); shutil.copytree("/repo/nutree", tmp+"/b/nutree")
for i in range(0,len(args),3):
    f,old,new=args[i:i+3]
    p=f"{tmp}/b/{f}"; s=open(p).read(); assert s.count(old)==1,(old,s.count(old)); open(p,"w").write(s.replace(old,new))
r=subprocess.run(["diff","-ruN","a","b","-x","__pycache__"],cwd=tmp,capture_output=True,text=True)
open(out,"w").write(r.stdout); shutil.rmtree(tmp)
print(out, len(r.stdout.splitlines()),"lines")
