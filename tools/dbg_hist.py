#!/venv/bin/python
"""print a step-by-step trace of an op history replay file (debugging aid)"""
import json, os, sys
os.environ.setdefault("PYTHONHASHSEED", "0")
sys.path.insert(0, "/verif")
from vlib import core  # noqa
from vlib.ops import Engine
from vlib.invariants import all_invariants
from vlib.observe import shape
d = json.load(open(sys.argv[1]))
c = d["case"]
print("spec ", json.dumps(c["spec"], ensure_ascii=False)); print("spec2", json.dumps(c.get("spec2"), ensure_ascii=False), "typed", c.get("typed"))
eng = Engine(c["spec"], typed=c.get("typed", False), spec2=c.get("spec2"), known=sys.argv[2:])
for op in c["ops"]:
    out = eng.step(op, check_unchanged=True)
    inv = all_invariants(eng.tree)
    print(op, "->", out.plan.status, out.plan.route, type(out.raised).__name__ if out.raised else "", [e[1] + " " + json.dumps(e[2], default=repr)[:200] for e in out.events], inv[:1])
    print("     ", json.dumps(shape(eng.tree, label=lambda n: f"{n.data}" + ("" if n.data_id == hash(n.data) else f"#{n.data_id}") + (f"[{n.kind}]" if c.get("typed") else "")), ensure_ascii=False)[:300])
