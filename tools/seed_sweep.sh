#!/bin/bash
# Re-validate every seeded change against the current /repo tree and run the quick check of its property.
# Writes seeded/SWEEP.txt.  (Scratch copies under $TMPDIR, removed afterwards.)
out=/verif/seeded/SWEEP.txt
echo "# seed sweep $(date -u +%FT%TZ)  repo=$(git -C /repo log --format=%h -1)  verif=$(git -C /verif log --format=%h -1)" > $out
for d in /verif/seeded/*/; do
  n=$(basename $d); pid=${n%%-*}; [ -f $d/patch.diff ] || continue
  mkdir -p /tmp/seedtmp_$$; cp $d/patch.diff /tmp/seedtmp_$$/m1.diff; cp $d/demo.py /tmp/seedtmp_$$/m1_demo.py
  ids=$(python3 -c "import json,sys; m=json.load(open('$d/meta.json')); print(' '.join(m.get('caught_by_quick') or ['$pid']))")
  res=$(timeout 1800 /verif/tools/seedcheck.sh /tmp/seedtmp_$$ 1 $ids 2>&1 | grep -E "^SEED|==" | tr '\n' ' ')
  echo "$n: $res" | sed 's/SEED seedtmp_[0-9]* m1: //' >> $out
  rm -rf /tmp/seedtmp_$$
done
grep -c "violation" $out
