#!/bin/bash
# Re-validate every seeded change against the current /repo tree and run the quick check(s) that caught it.
# Writes seeded/SWEEP.txt.  (Scratch copies under $TMPDIR, removed afterwards.)   env PAR=<parallel seeds> (default 3)
out=/verif/seeded/SWEEP.txt
tmp=$(mktemp -d /tmp/seed_sweep.XXXXXX)
one() {
  d=$1; tmp=$2
  n=$(basename $d); pid=${n%%-*}; [ -f $d/patch.diff ] || exit 0
  w=$tmp/w_$n; mkdir -p $w; cp $d/patch.diff $w/m1.diff; cp $d/demo.py $w/m1_demo.py
  ids=$(python3 -c "import json,sys; m=json.load(open('$d/meta.json')); print(' '.join(m.get('caught_by_quick') or ['$pid']))")
  res=$(timeout 2400 /verif/tools/seedcheck.sh $w 1 $ids 2>&1 | grep -E "^SEED|==" | tr '\n' ' ')
  echo "$n: $res" | sed 's/SEED w_[^ ]* m1: //' > $tmp/r_$n.txt
  rm -rf $w
}
export -f one
ls -d /verif/seeded/*/ | xargs -P ${PAR:-3} -I{} bash -c 'one {} '"$tmp"
echo "# seed sweep $(date -u +%FT%TZ)  repo=$(git -C /repo log --format=%h -1)  verif=$(git -C /verif log --format=%h -1)" > $out
cat $tmp/r_*.txt >> $out
rm -rf $tmp
caught=$(grep -v '^#' $out | grep -cE "== C[0-9]+ exit=[12]  [1-9][0-9]* violation line")
echo "seeds: $(grep -vc '^#' $out)  caught (some check prints VIOLATION lines): $caught  not caught: $(( $(grep -vc '^#' $out) - caught ))"
grep -v '^#' $out | grep -vE "== C[0-9]+ exit=[12]  [1-9][0-9]* violation line" | cut -c1-200
