#!/bin/bash
# Sensitivity helper: run checks against a scratch copy of /repo's working tree with a patch applied.
#   tools/mut.sh <patch.diff> <ID> [<ID> ...]   (env TIER=quick|thorough, default quick)
# The scratch copy lives under ${TMPDIR:-/tmp} and is removed afterwards.
set -u
patch=$(realpath "$1"); shift
tmp=$(mktemp -d "${TMPDIR:-/tmp}/nutree_mut.XXXXXX")
trap 'rm -rf "$tmp"' EXIT
cp -r /repo/nutree "$tmp/nutree"
mkdir -p "$tmp/tests" && cp -r /repo/tests/. "$tmp/tests/" 2>/dev/null
( cd "$tmp" && git apply --whitespace=nowarn "$patch" ) || { echo "PATCH-DOES-NOT-APPLY $patch"; exit 3; }
rc=0
for id in "$@"; do
  out=$(cd /verif && NUTREE_SRC="$tmp" VERIF_EVIDENCE_DIR="$tmp/evidence" VERIF_OUT_DIR="$tmp/out" ./check "$id" --tier "${TIER:-quick}" 2>&1)
  code=$?
  echo "== $id exit=$code  $(echo "$out" | grep -c '^VIOLATION') violation line(s)"
  echo "$out" | grep -E '^(FAIL|VIOLATION|HARNESS|KNOWN)' | cut -c1-400 | head -${SHOW:-6}
  [ $code -ne 0 ] && rc=1
done
exit $rc
