#!/bin/bash
# tools/run_all.sh [quick|thorough]  - run every registered check, print one summary line each
tier=${1:-quick}
cd "$(dirname "$0")/.."
for id in $(python3 -c "import json; print(' '.join(c['property_id'] for c in json.load(open('MANIFEST.json'))['checks']))"); do
  out=$(./check $id --tier $tier 2>&1); code=$?
  echo "$(echo "$out" | grep -E "^$id tier=" | tail -1) [exit=$code]"
  echo "$out" | grep -E "^(VIOLATION|HARNESS)" | head -5
done
