#!/venv/bin/python
"""Append an entry to known_findings.json (used at development time only; checks never write it).
  tools/finding.py fixed <PROP> <DID> <commit> <part> '<case json>' '<what failed>'
  tools/finding.py known <PROP> <DID> <bucket> <part> '<case json>' '<what fails>'
"""
import json, os, sys
path = "/verif/known_findings.json"
doc = json.load(open(path)) if os.path.exists(path) else {"entries": []}
kind, prop, did = sys.argv[1:4]
if kind == "fixed":
    commit, part, case, what = sys.argv[4:8]
    e = {"status": "fixed", "property": prop, "id": did, "commit": commit, "part": part,
         "case": json.loads(case), "what": what, "line": f"fixed: property={prop} {commit} {what}"}
else:
    bucket, part, case, what = sys.argv[4:8]
    e = {"status": "known", "property": prop, "id": did, "bucket": bucket, "part": part,
         "case": json.loads(case), "what": what, "line": f"known: property={prop} {did} {what}"}
doc["entries"] = [x for x in doc["entries"] if not (x["property"] == prop and x["id"] == did and x["part"] == part)] + [e]
json.dump(doc, open(path, "w"), indent=1, ensure_ascii=False)
print(e["line"])
