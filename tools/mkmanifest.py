#!/venv/bin/python
"""Regenerate MANIFEST.json from the check modules (ID, LEVEL, LEVEL_TEXT, LEVEL_NOTE, TECHNIQUE)."""
import importlib
import json
import os
import sys

HERE = os.path.dirname(os.path.dirname(os.path.abspath(__file__)))
sys.path.insert(0, HERE)
os.environ.setdefault("PYTHONHASHSEED", "0")

props = [json.loads(l) for l in open(os.path.join(HERE, "properties.jsonl"))]
mods = {}
for fn in sorted(os.listdir(os.path.join(HERE, "checks"))):
    if fn.startswith("c") and fn.endswith(".py"):
        m = importlib.import_module("checks." + fn[:-3])
        mods[m.ID] = m

NOT_BUILT = {}
checks, na = [], []
for p in props:
    pid = p["id"]
    m = mods.get(pid)
    if m is None:
        na.append({"property_id": pid, "reason": NOT_BUILT.get(pid, "check not built yet in this round (designed in DESIGN.md section 3); not claimed")})
        continue
    checks.append(
        {
            "property_id": pid,
            "quick_cmd": f"./check {pid} --tier quick",
            "thorough_cmd": f"./check {pid} --tier thorough",
            "evidence_file": f"/verif/evidence/{pid}.json",
            "replay_cmd_template": f"./check {pid} --replay {{path}}",
            "engine": "pbt",
            "level_claimed": {
                "category": m.LEVEL,
                "text": getattr(m, "LEVEL_TEXT", "generated-input search against an explicit oracle; never establishes absence"),
                "design_ref": f"DESIGN.md section 3, {pid}",
            },
            "level_note": getattr(m, "LEVEL_NOTE", "; ".join(m.ASSUMPTIONS)),
            "technique": getattr(m, "TECHNIQUE", "property-based testing (Hypothesis) + bounded-exhaustive enumeration against an explicit oracle"),
        }
    )

manifest = {
    "version": 1,
    "setup_cmd": "/venv/bin/python -c 'import hypothesis' 2>/dev/null || /venv/bin/pip install --no-index --find-links /opt/veriftools/wheels hypothesis",
    "hooks": {
        "guard": "MAR10_NUTREE_VERIF",
        "enable": "no source hooks exist: checks import /repo's working tree directly (NUTREE_SRC, default /repo) and observe it through the public API; ./check sets MAR10_NUTREE_VERIF=1 for completeness",
        "baseline_off_cmd": "cd /repo && env -u MAR10_NUTREE_VERIF /venv/bin/python -m pytest -ra -q -p no:cacheprovider --timeout=900 --continue-on-collection-errors",
        "source_commits": [],
        "add_only": True,
    },
    "engines": [
        {
            "name": "pbt",
            "path": "/verif/check",
            "serves_properties": sorted(mods),
            "kind_free_text": "Hypothesis 6.168 strategies / op-history generation + bounded-exhaustive enumerators, collect-then-shrink bucketing, JSON replay files (vlib/core.py)",
        }
    ],
    "checks": checks,
    "notes": "All checks are property-based tests / generated-input searches. Known findings: known_findings.json. Sensitivity mutants: mutants/, seeded/.",
    "not_applicable": na,
}
with open(os.path.join(HERE, "MANIFEST.json"), "w") as f:
    json.dump(manifest, f, indent=1)
print(f"MANIFEST.json: {len(checks)} checks, {len(na)} not claimed")
