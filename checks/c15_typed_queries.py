"""C15 - kind-aware queries equal filtering the child/sibling list by kind (DESIGN section 3, C15)."""

from __future__ import annotations

import itertools

from hypothesis import strategies as st

from vlib import gen
from vlib.build import build
from vlib.core import Part
from vlib.observe import walk

from nutree.typed_tree import ANY_KIND

ID = "C15"
LEVEL = "exploration"
TECHNIQUE = 'bounded-exhaustive kind patterns + Hypothesis; list-comprehension oracle'
LEVEL_TEXT = 'exploration with an exhaustive part: all sibling kind patterns up to the bound at top level and nested, every position, every kind present or absent, any_kind on/off; kinds are passed as equal-but-distinct str objects'
RULE = (
    "exhaustive part: every sibling kind pattern of length 0..M over kinds {x,y,z} (3^m patterns), placed at top "
    "level and below a parent node, every child position, every kind present or absent plus ANY_KIND, any_kind "
    "on/off; Hypothesis part: random typed trees with clones, equal-comparing siblings and odd kind names (the empty "
    "string, names that contain each other); part query-mutate-query evaluates all queries on ONE typed tree before a "
    "generated mutation history (sort, remove, add, copy, ...), after a generated subset of its steps and at its end. Oracle: list "
    "comprehensions over node.children / the parent's child list filtered by kind. Non-trivial: a parent with >= 3 "
    "children of >= 2 kinds; distinct = distinct case."
)
ASSUMPTIONS = [
    "node.children / tree.children (all kinds) and node.kind are the trusted accessors",
    "a kind that no child has is a legal argument (result: empty list / None / False)",
]
EXHAUSTIVE_NOTE = {"quick": "all kind patterns of length <= 5 over 3 kinds, top-level and nested", "thorough": "all kind patterns of length <= 8 over 3 kinds, top-level and nested"}

KINDS = ["kx", "ky", "kz"]
# kind names that contain each other, and the empty string (a legal kind name)
ODD_KINDS = ["", "k", "kx", "xk", "cause", "root_cause", "child"]
QUERY_KINDS = ["kx", "ky", "kz", "x", "y", "z", "child", "nope", "", "k", "xk", "cause", "root_cause"]


def nm(x):
    if x is None:
        return None
    if isinstance(x, (list, tuple)):
        return [nm(i) for i in x]
    return f"{x.kind}:{x.data}"


def same_list(a, b):
    a, b = list(a), list(b)
    return len(a) == len(b) and all(x is y for x, y in zip(a, b))


def call(fn, *a, **kw):
    try:
        return ("ok", fn(*a, **kw))
    except Exception as e:  # noqa: BLE001
        return ("exc", e)


def check_tree(tree, rec, nt=True):
    w = walk(tree)
    ev = 0
    interesting = False

    def chk(name, res, ok_pred, detail):
        nonlocal ev
        ev += 1
        if res[0] == "exc":
            rec.fail(name + ":raises", detail + [repr(res[1])])
        elif not ok_pred(res[1]):
            got = res[1]
            rec.fail(name, detail + [nm(got) if not isinstance(got, (bool, int)) else got])

    pre = w.pre
    # --- tree level ---------------------------------------------------------------
    top = w.kids[id(None)]
    for k in QUERY_KINDS:
        exp = [c for c in top if c.kind == k]
        chk("tree.first_child(kind)", call(tree.first_child, k), lambda v: v is (exp[0] if exp else None), [k, nm(top)])
        chk("tree.last_child(kind)", call(tree.last_child, k), lambda v: v is (exp[-1] if exp else None), [k, nm(top)])
        exp_it = [n for n in pre if n.kind == k]
        chk("tree.iter_by_type(kind)", call(lambda: list(tree.iter_by_type(k))), lambda v: same_list(v, exp_it), [k])
    chk("tree.first_child(ANY_KIND)", call(tree.first_child, ANY_KIND), lambda v: v is (top[0] if top else None), [nm(top)])
    chk("tree.last_child(ANY_KIND)", call(tree.last_child, ANY_KIND), lambda v: v is (top[-1] if top else None), [nm(top)])
    chk("tree.iter_by_type(ANY_KIND)", call(lambda: list(tree.iter_by_type(ANY_KIND))), lambda v: same_list(v, pre), [len(pre)])
    # several by-kind iterators of one tree alive at once (consumed in lock step, the older one finished last)
    import itertools

    for k1, k2 in zip(QUERY_KINDS, QUERY_KINDS[1:] + QUERY_KINDS[:1]):
        def both(k1=k1, k2=k2):
            i1 = tree.iter_by_type(k1)
            i2 = tree.iter_by_type(k2)
            a, b = [], []
            for x, y in itertools.zip_longest(i1, i2):
                if x is not None:
                    a.append(x)
                if y is not None:
                    b.append(y)
            return a, b

        e1, e2 = [n for n in pre if n.kind == k1], [n for n in pre if n.kind == k2]
        chk("tree.iter_by_type:two-iterators-in-lock-step", call(both), lambda v: same_list(v[0], e1) and same_list(v[1], e2), [k1, k2])
    # the system root is a node like any other for the child queries (also of a tree that never had a node)
    root = tree.system_root
    for k in QUERY_KINDS:
        exp = [c for c in top if c.kind == k]
        chk("system_root.has_children(kind)", call(root.has_children, k), lambda v: v is bool(exp), [k, nm(top)])
        chk("system_root.get_children(kind)", call(root.get_children, k), lambda v: same_list(v, exp), [k, nm(top)])
        chk("system_root.first_child(kind)", call(root.first_child, k), lambda v: v is (exp[0] if exp else None), [k, nm(top)])
    chk("system_root.has_children(ANY_KIND)", call(root.has_children, ANY_KIND), lambda v: v is bool(top), [nm(top)])
    chk("system_root.get_children(ANY_KIND)", call(root.get_children, ANY_KIND), lambda v: same_list(v, top), [nm(top)])

    for n in pre:
        ks = w.kids[id(n)]
        if len(ks) >= 3 and len({c.kind for c in ks}) >= 2:
            interesting = True
        me = nm(n)
        # --- as parent ----------------------------------------------------------------
        for k in QUERY_KINDS:
            exp = [c for c in ks if c.kind == k]
            d = [me, k, nm(ks)]
            chk("get_children(kind)", call(n.get_children, k), lambda v: same_list(v, exp), d)
            chk("first_child(kind)", call(n.first_child, k), lambda v: v is (exp[0] if exp else None), d)
            chk("last_child(kind)", call(n.last_child, k), lambda v: v is (exp[-1] if exp else None), d)
            chk("has_children(kind)", call(n.has_children, k), lambda v: v is bool(exp), d)
        d = [me, "ANY", nm(ks)]
        chk("get_children(ANY_KIND)", call(n.get_children, ANY_KIND), lambda v: same_list(v, ks), d)
        chk("first_child(ANY_KIND)", call(n.first_child, ANY_KIND), lambda v: v is (ks[0] if ks else None), d)
        chk("last_child(ANY_KIND)", call(n.last_child, ANY_KIND), lambda v: v is (ks[-1] if ks else None), d)
        chk("has_children(ANY_KIND)", call(n.has_children, ANY_KIND), lambda v: v is bool(ks), d)
        chk("children", call(lambda: n.children), lambda v: same_list(v, ks), d)

        # --- as sibling ------------------------------------------------------------------
        sibs = w.kids[id(w.parent[id(n)])]
        if len(sibs) >= 3 and len({c.kind for c in sibs}) >= 2:
            interesting = True
        i = [j for j, s in enumerate(sibs) if s is n][0]
        same = [s for s in sibs if s.kind == n.kind]
        si = [j for j, s in enumerate(same) if s is n][0]
        d = [me, f"i={i}", nm(sibs)]
        toplevel = w.parent[id(n)] is None
        tag = ":toplevel" if toplevel else ""
        # same kind (default)
        chk("get_siblings", call(n.get_siblings), lambda v: same_list(v, [s for s in same if s is not n]), d)
        chk("get_siblings(add_self)", call(n.get_siblings, add_self=True), lambda v: same_list(v, same), d)
        chk("first_sibling", call(n.first_sibling), lambda v: v is same[0], d)
        chk("last_sibling", call(n.last_sibling), lambda v: v is same[-1], d)
        chk("prev_sibling", call(n.prev_sibling), lambda v: v is (same[si - 1] if si > 0 else None), d)
        chk("next_sibling", call(n.next_sibling), lambda v: v is (same[si + 1] if si + 1 < len(same) else None), d)
        chk("get_index" + tag, call(n.get_index), lambda v: v == si and not isinstance(v, bool), d)
        chk("is_first_sibling", call(n.is_first_sibling), lambda v: v is (si == 0), d)
        chk("is_last_sibling", call(n.is_last_sibling), lambda v: v is (si == len(same) - 1), d)
        # any kind == untyped reference
        chk("get_siblings(any_kind)", call(n.get_siblings, any_kind=True), lambda v: same_list(v, [s for s in sibs if s is not n]), d)
        chk("get_siblings(add_self,any_kind)", call(n.get_siblings, add_self=True, any_kind=True), lambda v: same_list(v, sibs), d)
        chk("first_sibling(any_kind)", call(n.first_sibling, any_kind=True), lambda v: v is sibs[0], d)
        chk("last_sibling(any_kind)", call(n.last_sibling, any_kind=True), lambda v: v is sibs[-1], d)
        chk("prev_sibling(any_kind)", call(n.prev_sibling, any_kind=True), lambda v: v is (sibs[i - 1] if i > 0 else None), d)
        chk("next_sibling(any_kind)", call(n.next_sibling, any_kind=True), lambda v: v is (sibs[i + 1] if i + 1 < len(sibs) else None), d)
        chk("get_index(any_kind)" + tag, call(n.get_index, any_kind=True), lambda v: v == i, d)
        chk("is_first_sibling(any_kind)", call(n.is_first_sibling, any_kind=True), lambda v: v is (i == 0), d)
        chk("is_last_sibling(any_kind)", call(n.is_last_sibling, any_kind=True), lambda v: v is (i == len(sibs) - 1), d)
    if nt:
        rec.nt(interesting)
    rec.evals += ev
    return interesting


def run_pattern(case, rec):
    pat, nested = case["pattern"], case["nested"]
    kids = []
    for i, k in enumerate(pat):
        gk = [[f"g{i}{j}", [], {"kind": KINDS[(i + j) % 3]}] for j in range(i % 3)]
        kids.append([f"c{i}", gk, {"kind": "k" + k}])  # equal but distinct str objects are made by build()
    spec = [["P", kids, {"kind": "kx"}], ["Q", [], {"kind": "ky"}]] if nested else kids
    tree, _ = build(spec, typed=True)
    rec.cls(f"len={len(pat)}")
    check_tree(tree, rec)


def run_random(case, rec):
    tree, _ = build(case["spec"], typed=True)
    if gen.spec_has_clone(case["spec"]):
        rec.cls("has-clones-or-equal-data")
    check_tree(tree, rec)


def enum_cases(tier):
    m = 5 if tier == "quick" else 8
    for n in range(0, m + 1):
        for pat in itertools.product("xyz", repeat=n):
            for nested in (False, True):
                yield {"pattern": "".join(pat), "nested": nested}


@st.composite
def hyp_cases(draw, tier):
    opts = gen.node_opts(explicit_ids=False, kinds=True)
    mode = draw(st.sampled_from(["clones", "eqsib", "oddkinds"]))
    spec = draw(gen.forest_specs(max_nodes=18, max_depth=4, max_width=6, min_nodes=3, opts=opts, alphabet=["a", "b", "c", "d", "e", "f", "g"]))
    if mode == "eqsib":
        counter = [0]

        def eq_(nodes):
            for j, n in enumerate(nodes):
                if j > 0 and draw(st.integers(0, 2)) == 0:
                    n[0] = nodes[draw(st.integers(0, j - 1))][0]
                    counter[0] += 1
                    o = dict(n[2]) if len(n) > 2 and n[2] else {}
                    o["id"] = f"E{counter[0]}"
                    del n[2:]
                    n.append(o)
                eq_(n[1])

        eq_(spec)
    if mode == "oddkinds":
        def odd_(nodes):
            for n in nodes:
                o = dict(n[2]) if len(n) > 2 and n[2] else {}
                o["kind"] = draw(st.sampled_from(ODD_KINDS))
                del n[2:]
                n.append(o)
                odd_(n[1])

        odd_(spec)
    return {"spec": spec, "mode": mode}


def run_requery(case, rec):
    """Query, rearrange the child lists (sort, move is refused on typed trees, remove, add, copy), query again."""
    from vlib import requery

    seen = []

    def check(tree, rec, eng):
        seen.append(check_tree(tree, rec, nt=False))

    q = requery.run(case, rec, check)
    rec.nt(bool(q and q >= 2 and any(seen)))


def requery_cases(tier):
    from vlib import requery

    return requery.cases(typed=True, max_ops=6, max_nodes=10,
                         kinds=["sort"] * 3 + ["remove"] * 3 + ["add"] * 2 + ["add_node"] * 2 + ["prepend_sibling", "move", "remove_children", "copy_to", "set_data"])


# (what round 8 added to the case domain; part of the evidence text)
RULE_ROUND8 = ' One generated forest in 20 (60 in the thorough tier) is a BIG one (gen.big_specs: a child list of 11..300 nodes, that many clones of one data object, more than 256 nodes), with node references aimed at notable positions of the long child lists.'
RULE = RULE + RULE_ROUND8

RULE_ROUND9 = ' Two by-kind iterators of one tree are consumed in lock step; the child queries are also asked of tree.system_root (also of a tree that never had a node).'
RULE = RULE + RULE_ROUND9

PARTS = [
    Part("kind-patterns", run_pattern, enum=enum_cases),
    Part("random-typed", run_random, strategy=lambda tier: hyp_cases(tier), n={"quick": 600, "thorough": 80000}),
    Part("query-mutate-query", run_requery, strategy=requery_cases, n={"quick": 300, "thorough": 20000}),
]
