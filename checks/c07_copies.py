"""C07 - copies are faithful to the source and independent of it (DESIGN section 3, C07)."""

from __future__ import annotations

from hypothesis import strategies as st

from vlib import gen, gen_ops
from vlib.build import Flavour, build
from vlib.core import Part, optimized_part
from vlib.invariants import structural
from vlib.observe import Uids, kind_of, snapshot, walk
from vlib.ops import Engine, engine_known, flush_excluded

ID = "C07"
LEVEL = "exploration"
TECHNIQUE = 'property-based testing: model-checked copy step, then independence under generated mutation histories on either side'
LEVEL_TEXT = 'exploration: generated (source, target, copy operation, follow-up history) cases; faithfulness via the independent model, source-unchanged and two-way independence by comparing full observations after every later step'
RULE = (
    "case = (data flavour in {str with explicit ids, objects keyed by a calc_data_id callback, objects keyed by a "
    "subclass override, objects on a forward_attrs tree, tuples / frozen dataclasses (the target then holds equal but distinct objects)}, plain/typed, source tree with clones, target tree, one copy operation out of {Tree.copy(), "
    "Node.copy(add_self), Tree.copy_to(target, deep), Node.copy_to(other-tree target, add_self, before, deep), "
    "target.add(node, deep, before), target.add(tree, before, deep), the shortcuts append_child / prepend_child / prepend_sibling / append_sibling(tree)}, then a mutation history (rename/set_data, add, "
    "remove, move, sort, meta, clear ...) on the copy side or on the source side). Oracle: faithful (copies are new "
    "node objects holding the *same* data objects under the same data_ids and kinds, same order/shape for deep, a "
    "single childless node for shallow, placed as `before` says, copy()/Node.copy() return a tree of the source's "
    "class; a copy of the copy and a branch copy taken inside the copy are as faithful) via the independent model; "
    "source unchanged (full observation incl. top-level order) after the copy; "
    "independence: after every later mutation of one side the full observation of the other side is unchanged. In a "
    "third of the cross-tree cases the target tree calculates data_ids by another rule than the source tree (a "
    "calc_data_id callback on one side only): the copies must still carry the source's data_ids. "
    "Non-trivial: copied branch has >= 2 nodes and an explicit id, a clone or a non-default kind; distinct = case."
)
ASSUMPTIONS = [
    "same-tree copies are covered by the C04 model check; here source and copy live in different trees",
    "independence concerns tree structure, ids, kinds, data references and metadata; the shared data objects themselves are shared by design",
]

FLAVS = ["str", "obj_cb", "obj_sub", "obj_fwd", "tuple", "dc"]


def snap(tree, u):
    return snapshot(tree, u, label=lambda n: repr(n.data))


def plain_view(tree):
    """identity-free view: nested [id(data), data_id, kind, meta, children]"""
    w = walk(tree)

    def one(n):
        return [id(n.data), n.data_id, kind_of(n), dict(n.meta) if n.meta else None, [one(c) for c in w.kids[id(n)]]]

    return [one(n) for n in w.kids[id(None)]], w


def run(case, rec):
    typed = case["typed"]
    fl = Flavour(case["flavour"])
    known = engine_known(rec)
    copy = case["copy"]
    kind = copy[0]
    rec.cls(f"copy={kind}")
    rec.cls(f"flavour={fl.name}{',typed' if typed else ''}")
    u = Uids()

    if kind in ("tree.copy", "node.copy"):
        src, nodes = build(case["spec"], flavour=fl, typed=typed, name="SRC")
        probe = Engine(case["spec"], typed=typed, flavour=fl.name)
        if probe.build_problems:
            rec.fail("source-build:" + probe.build_problems[0][0], probe.build_problems[0])
            return
        before = snap(src, u)
        if kind == "tree.copy":
            try:
                cp = src.copy()
            except Exception as e:  # noqa: BLE001
                rec.fail("tree.copy:raises", repr(e)[:200])
                return
            exp_view, w_src = plain_view(src)
            branch_n = len(w_src.pre)
        else:
            if not nodes:
                return
            start = nodes[copy[1] % len(nodes)]
            add_self = copy[2]
            try:
                cp = start.copy(add_self=add_self)
            except Exception as e:  # noqa: BLE001
                rec.fail("node.copy:raises", repr(e)[:200])
                return
            w_src = walk(src)

            def one(n):
                return [id(n.data), n.data_id, kind_of(n), dict(n.meta) if n.meta else None, [one(c) for c in w_src.kids[id(n)]]]

            exp_view = [one(start)] if add_self else [one(c) for c in w_src.kids[id(start)]]
            if typed and add_self and "D10a" in known and exp_view[0][2] != "child":
                exp_view[0][2] = "child"  # defect model of known finding D10a (top node of a typed copy)
                rec.excl("D10a")
            branch_n = len(w_src.pre)
        rec.evals += 1
        if snap(src, u) != before:
            rec.fail(f"{kind}:source-modified")
            return
        if type(cp) is not type(src):
            rec.fail(f"{kind}:result-class", [type(cp).__name__, type(src).__name__])
            return
        got_view, w_cp = plain_view(cp)
        # metadata is not part of the copy contract: compare without it
        strip = lambda v: [[x[0], x[1], x[2], strip(x[4])] for x in v]  # noqa: E731
        if strip(got_view) != strip(exp_view):
            what = _first_diff(strip(got_view), strip(exp_view))
            rec.fail(f"{kind}:faithful:{what}", {"got": _pretty(cp), "src": _pretty(src)})
            return
        src_ids = {id(n) for n in w_src.pre}
        if any(id(n) in src_ids for n in w_cp.pre):
            rec.fail(f"{kind}:copy-shares-node-objects")
            return
        problems, _ = structural(cp)
        if problems:
            rec.fail(f"{kind}:copy-malformed:{problems[0][0]}", problems[0][1])
            return
        # a copy is an ordinary tree: copying it again (whole, and one of its inner branches) is as faithful
        try:
            cp2 = cp.copy()
            v2, _w2 = plain_view(cp2)
            rec.evals += 1
            if strip(v2) != strip(got_view) or type(cp2) is not type(cp):
                rec.fail("copy-of-a-copy:faithful", {"copy": _pretty(cp), "copy-of-copy": _pretty(cp2)})
                return
            inner = next((n for n in w_cp.pre if w_cp.kids[id(n)]), None)
            if inner is not None:
                cp3 = inner.copy()
                v3, _w3 = plain_view(cp3)
                rec.evals += 1

                def one_cp(n):
                    return [id(n.data), n.data_id, kind_of(n), [one_cp(c) for c in w_cp.kids[id(n)]]]

                exp3 = [one_cp(inner)]
                if typed and "D10a" in known and exp3[0][2] != "child":
                    exp3[0][2] = "child"
                    rec.excl("D10a")
                if strip(v3) != exp3:
                    rec.fail("branch-copy-of-a-copy:faithful", {"copy": _pretty(cp), "branch-copy": _pretty(cp3)})
                    return
        except Exception as e:  # noqa: BLE001
            rec.fail("copy-of-a-copy:raises", repr(e)[:200])
            return
        side_trees = (cp, src)
        rec.nt(len(w_cp.pre) >= 2 and _interesting(w_cp, typed))
    else:
        # copy INTO the target tree (tree 1) FROM the source tree (tree 2): the engine's model decides
        if case.get("mixed"):
            # the target tree derives data_ids by another rule than the source tree: copies keep the SOURCE's ids
            from nutree import Tree, TypedTree

            cls = TypedTree if typed else Tree
            t = cls("T1", calc_data_id=_other_rule) if fl.name == "str" else cls("T1")
            build(case["spec_t"], flavour=fl, typed=typed, tree=t)
            eng = Engine(tree=t, typed=typed, spec2=case["spec"], fl=fl, known=known)
            rec.cls("target-tree-with-another-data_id-rule")
        else:
            eng = Engine(case["spec_t"], typed=typed, spec2=case["spec"], fl=fl, known=known)
        src = eng.tree2
        before = snap(src, u)
        out = eng.step(copy, check_unchanged=True)
        flush_excluded(eng, rec)
        rec.evals += 1
        rec.cls(f"copy-status={out.plan.status}")
        for cat, bucket, detail in out.events:
            if cat in ("effect", "raised", "source-changed", "changed-after-refusal", "unrefused", "unrefused-collision", "wrong-exception"):
                rec.fail(bucket, {"op": copy, "detail": detail})
                return
        if snap(src, u) != before:
            rec.fail(f"{kind}:source-modified", {"op": copy})
            return
        w_t = walk(eng.tree)
        src_ids = {id(n) for n in walk(src).pre}
        if any(id(n) in src_ids for n in w_t.pre):
            rec.fail(f"{kind}:copy-shares-node-objects", {"op": copy})
            return
        side_trees = (eng.tree, src)
        rec.nt(out.plan.status == "valid" and len(walk(src).pre) >= 2 and _interesting(walk(src), typed))

    # ---- independence -------------------------------------------------------------------------
    copy_side, source_side = side_trees
    if case["side"] == "copy":
        mutate, watch, wname = copy_side, source_side, "source"
    else:
        mutate, watch, wname = source_side, copy_side, "copy"
    eng2 = Engine(tree=mutate, typed=typed, fl=fl, known=known, spec2=case.get("spec_x") or [])
    watched = snap(watch, u)
    for op in case["ops"]:
        out = eng2.step(op, check_unchanged=False)
        rec.evals += 1
        if snap(watch, u) != watched:
            rec.fail(f"independence:{wname}-changed-by:{out.plan.route.split(':')[0]}", {"op": op, "copy": copy})
            return
        problems, _ = structural(watch)
        if problems:
            rec.fail(f"independence:{wname}-malformed:{problems[0][0]}", {"op": op})
            return


def _other_rule(tree, data):
    """calc_data_id callback of a target tree (plain data): not hash()."""
    return ("T", data) if isinstance(data, (str, int)) else hash(data)


def _interesting(w, typed):
    ids = [n.data_id for n in w.pre]
    if len(set(ids)) < len(ids):
        return True
    if any(n.data_id != hash(n.data) for n in w.pre if isinstance(n.data, str)):
        return True
    if any(not isinstance(n.data, str) for n in w.pre):
        return True
    return typed and any(n.kind != "child" for n in w.pre)


def _first_diff(a, b):
    if len(a) != len(b):
        return "shape"
    for x, y in zip(a, b):
        if x[0] != y[0]:
            return "data-identity"
        if x[1] != y[1]:
            return "data_id"
        if x[2] != y[2]:
            return "kind"
        d = _first_diff(x[3], y[3])
        if d:
            return d
    return ""


def _pretty(tree):
    w = walk(tree)

    def one(n):
        return [f"{n.data}", repr(n.data_id), kind_of(n), [one(c) for c in w.kids[id(n)]]]

    return [one(n) for n in w.kids[id(None)]]


@st.composite
def hyp_cases(draw, tier):
    typed = draw(st.sampled_from([False, False, True]))
    flavour = draw(st.sampled_from(FLAVS))
    explicit = flavour == "str"
    opts = gen.node_opts(explicit_ids=explicit, kinds=typed, meta=True)
    # one case in six copies a BIG source (a long list of top-level nodes / children, many clones, > 256 nodes)
    bigcase = draw(st.sampled_from([0, 0, 0, 1]))
    spec = draw(gen.forest_specs(max_nodes=12, max_depth=4, max_width=4, min_nodes=1, alphabet=gen_ops.LABELS, opts=opts, big=1 if bigcase else False))
    spec_t = draw(gen.forest_specs(max_nodes=8, max_depth=3, max_width=3, min_nodes=draw(st.sampled_from([0, 1, 3])), alphabet=gen_ops.LABELS + ["t1", "t2"], opts=gen.node_opts(explicit_ids=explicit, kinds=typed, fresh=flavour in ("tuple", "dc"))))
    if flavour in ("tuple", "dc"):
        # every node of the target holds its own, value-equal copy of the data object the source tree uses
        def all_fresh(nodes):
            for nd in nodes:
                o = dict(nd[2]) if len(nd) > 2 and nd[2] else {}
                o["fresh"] = True
                del nd[2:]
                nd.append(o)
                all_fresh(nd[1])

        all_fresh(spec_t)
    if explicit:
        gen.localize_ids(spec, gen_ops.LABELS)
        gen.fix_sibling_ids(spec)
        gen.localize_ids(spec_t, gen_ops.LABELS + ["t1", "t2"])
        gen.fix_sibling_ids(spec_t)
        if draw(st.sampled_from([0, 1])) and len(spec_t) >= 1:
            # equal-comparing siblings in the target: same data under another explicit id
            spec_t.insert(draw(st.integers(0, len(spec_t))), [spec_t[0][0], [], {"id": "EQ"}])
            eq_later = max(i for i, n in enumerate(spec_t) if n[0] == spec_t[0][0] or (len(n) > 2 and n[2] and n[2].get("id") == "EQ"))
        else:
            eq_later = None
    else:
        eq_later = None
    B = gen_ops.before_json(valid_only=True)
    tri = st.sampled_from([None, True, True, False])
    deep2 = st.sampled_from([True, True, False])  # (st.booleans() is drawn as False most of the time)
    copy = draw(st.one_of(
        st.just(["tree.copy"]),
        st.tuples(st.just("node.copy"), gen_ops.REF, st.booleans()).map(list),
        st.tuples(st.just("tree2_copy_to"), gen_ops.PREF, tri).map(list),
        st.tuples(st.just("copy_from2"), gen_ops.REF, gen_ops.PREF, st.sampled_from([True, True, False]), B, deep2).map(list),
        st.tuples(st.just("copy_from2"), gen_ops.REF, gen_ops.REF, st.just(True), st.none(), st.just(True)).map(list),  # deep copy below a node
        st.tuples(st.just("add_node"), gen_ops.PREF, st.just(1), gen_ops.REF, tri, B).map(list),
        st.tuples(st.just("add_tree"), gen_ops.PREF, B, tri).map(list),
        st.tuples(st.just("shortcut_tree"), st.sampled_from(["append_child", "prepend_child", "prepend_sibling", "append_sibling"]), gen_ops.REF, tri).map(list),
    ))
    if bigcase:
        copy = draw(st.one_of(
            st.tuples(st.just("add_tree"), gen_ops.PREF, B, tri).map(list),
            st.tuples(st.just("add_tree"), gen_ops.PREF, st.sampled_from([True, ["i", 0], ["i", 1], ["c", 0]]), tri).map(list),
            st.tuples(st.just("add_tree"), st.just(-1), st.sampled_from([True, ["i", 0], ["i", 1], ["i", 2]]), tri).map(list),
            st.tuples(st.just("shortcut_tree"), st.sampled_from(["append_child", "prepend_child", "prepend_sibling", "append_sibling"]), gen_ops.REF, tri).map(list),
            st.tuples(st.just("tree2_copy_to"), gen_ops.PREF, tri).map(list),
            st.just(["tree.copy"]),
            st.tuples(st.just("copy_from2"), st.sampled_from([0, 1, 2]), gen_ops.PREF, st.sampled_from([True, False]), B, deep2).map(list),
        ))
    elif eq_later is not None and draw(st.booleans()):
        # directed: place the copy before the LATER one of two equal-comparing top-level siblings
        which = draw(st.sampled_from(["add_node", "copy_from2", "add_tree"]))
        if which == "add_node":
            copy = ["add_node", -1, 1, draw(gen_ops.REF), draw(tri), ["c", eq_later]]
        elif which == "copy_from2":
            copy = ["copy_from2", draw(gen_ops.REF), -1, True, ["c", eq_later], draw(st.booleans())]
        else:
            copy = ["add_tree", -1, ["c", eq_later], draw(tri)]
    hist = draw(gen_ops.histories(typed=typed, max_ops=12 if tier == "quick" else 25, explicit_ids=explicit,
                                  kinds=["rename" if flavour == "str" else "set_data", "set_data", "add", "remove", "move", "sort", "meta", "clear",
                                         "remove_children", "add_node", "filter", "del"], max_nodes=1))
    case = {"flavour": flavour, "typed": typed, "spec": spec, "spec_t": spec_t, "copy": copy, "side": draw(st.sampled_from(["copy", "source"])),
            "ops": hist["ops"], "spec_x": hist["spec2"]}
    if copy[0] not in ("tree.copy", "node.copy") and draw(st.sampled_from([0, 0, 1])):
        # source and target tree calculate data_ids differently (callback on one side only); the follow-up history
        # runs on the source side (the engine's model creates new data by the source's rule)
        case["mixed"] = True
        case["side"] = "source"
    return case


# (what round 8 added to the case domain; part of the evidence text)
RULE_ROUND8 = ' One case in four copies a BIG source (gen.big_specs) with add(tree, before=True|int|node), the shortcut methods, Tree.copy_to, Tree.copy, Node.copy_to. Part python-O: the copies part with PYTHONOPTIMIZE=1.'
RULE = RULE + RULE_ROUND8

PARTS = [
    Part("copies", run, strategy=hyp_cases, n={"quick": 1200, "thorough": 200000}),
    optimized_part("C07", ['copies']),
]
