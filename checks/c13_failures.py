"""C13 - refused or failing operations do not corrupt the tree (DESIGN section 3, C13)."""

from __future__ import annotations

import io
import warnings

from hypothesis import strategies as st

from vlib import gen, gen_ops
from vlib.build import Flavour, build
from vlib.core import Part, optimized_part
from vlib.invariants import all_invariants
from vlib.observe import Uids, index_probe, snapshot, walk
from vlib.ops import Engine, engine_known, flush_excluded

from nutree import IterMethod, Tree

ID = "C13"
LEVEL = "fault_enumeration"
LEVEL_TEXT = (
    "fault enumeration: for every generated (tree, operation taking a user callback) the number K of callback "
    "invocations is counted fault-free and then EVERY k in 1..K is made to raise, on a fresh copy of the tree; "
    "refusals are explored by generated histories biased towards documented-invalid arguments. Complete over fault "
    "positions per generated (tree, operation); a search over trees and operations."
)
TECHNIQUE = 'fault injection: every k-th invocation of every user callback; refusal histories biased to invalid arguments'
RULE = (
    "part refusals: op histories biased to documented-invalid arguments (uniqueness collisions by every route, "
    "`before` node that is not a child of the target - also a stale reference to a node that has left the tree, "
    "used below its former parent after that parent got new children -, move into the own branch / across trees / in typed trees, "
    "set_data on clones without decision, copy_to(add_self=False) of a leaf, del of absent/ambiguous keys, ID arguments "
    "for node copies; a node_id that is already in use is run as documentation-silent: if it raises, nothing may have changed); oracle: "
    "if the call raises, the full observation (node identity, data, ids, kinds, meta, order) AND the index probes "
    "(count, count_unique, find_all per id, find_first(node_id)) equal those taken before the call. part faults: for "
    "each of ~30 operations that take a user callback (calc_data_id, predicate, mapper, sort key, visitor, repr) the "
    "k-th invocation raises, for every k <= K; oracle: C01 walker invariants, C02 index exactness and C03 sibling "
    "uniqueness hold afterwards and read-only operations leave the observation unchanged (also with the library's "
    "own DictWrapper.serialize_mapper as the failing mapper of save()/to_dict_list() on DictWrapper trees, with "
    "key/value maps that name keys of the wrapped dicts: the dict contents are part of the observation; and for a list of "
    "read-only operations without any callback - lookups with result limits, index access, iteration, visit, format, copy, save). Non-trivial: refusal on a "
    "tree with >= 3 nodes / fault with 1 < k <= K; distinct = distinct case."
)
ASSUMPTIONS = [
    "AssertionError raised by the library's argument checks counts as a refusal (it is how move_to rejects a foreign `before` node)",
    "a fault is an exception of a private class raised by the callback; the harness does not catch-and-continue inside the library",
    "operations that build a new tree (load, from_dict, copies) are only required to leave the source unchanged",
]


# ==================================================================================
# (a) refusals
# ==================================================================================
def run_refusals(case, rec):
    eng = Engine(case["spec"], typed=case.get("typed", False), spec2=case.get("spec2"), known=engine_known(rec))
    n_ref = 0
    for op in case["ops"]:
        flush_excluded(eng, rec)
        size = eng.model.count()
        out = eng.step(op, check_unchanged=True)
        rec.evals += 1
        refused = out.raised is not None and out.plan.status in ("refuse", "unspecified")
        if refused:
            rec.cls("refusal=" + ":".join(out.plan.route.split(":")[:2]))
            if size >= 3:
                n_ref += 1
            for cat, bucket, detail in out.events:
                if cat == "changed-after-refusal":
                    rec.fail(bucket, {"op": op, "raised": repr(out.raised)[:120]})
                    return
        inv = all_invariants(eng.tree)
        if inv:
            if refused:
                rec.fail(f"refusal:{out.plan.route}:invariant:{inv[0][0]}", {"op": op, "detail": inv[0][1]})
            else:
                # broken by an operation that was not refused: that is C01-C04's subject; this
                # tree is not driven any further
                rec.cls("abandoned:invariant-broken-by-non-refused-op")
            return
    rec.nt(n_ref >= 1)


def run_refusals_strict_warnings(case, rec):
    """The same histories in a process that turns warnings into errors (python -W error, pytest filterwarnings =
    error): a warning issued in the middle of an operation then leaves it as an exception - the tree must be as it
    was, like after every other refused call.  (The unchanged code issues no warnings: nothing differs then.)"""
    import warnings

    rec.cls("warnings-are-errors")
    with warnings.catch_warnings():
        warnings.simplefilter("error")
        eng = Engine(case["spec"], typed=case.get("typed", False), spec2=case.get("spec2"), known=engine_known(rec))
        n_ref = 0
        for op in case["ops"]:
            flush_excluded(eng, rec)
            before = eng.observe_state()
            out = eng.step(op, check_unchanged=True)
            rec.evals += 1
            if out.raised is None:
                if all_invariants(eng.tree):
                    rec.cls("abandoned:invariant-broken-by-non-refused-op")
                    return
                continue
            n_ref += 1
            # whatever made the call raise (a documented refusal, or a warning that this process treats as an error)
            if eng.observe_state() != before:
                rec.fail(f"state-changed-by-a-call-that-raised:{out.plan.route.split(':')[0]}:{type(out.raised).__name__}", {"op": op, "raised": repr(out.raised)[:160], "plan": out.plan.status})
                return
            inv = all_invariants(eng.tree)
            if inv:
                rec.fail(f"raised:{out.plan.route}:invariant:{inv[0][0]}", {"op": op, "detail": inv[0][1]})
                return
            if out.plan.status == "valid":
                return  # the model applied the operation: this history ends here
        rec.nt(n_ref >= 1)


def run_collision_routes(case, rec):
    """Every colliding operation the harness can construct from a state (all
    routes of C03) must leave the tree exactly as it was when it is refused."""
    from checks.c03_sibling_unique import collision_ops

    eng = Engine(case["spec"], typed=case.get("typed", False), spec2=case.get("spec2"), known=engine_known(rec))
    for op in case["ops"]:
        eng.step(op, check_unchanged=False)
        if all_invariants(eng.tree):
            rec.cls("abandoned:prefix-broke-invariant")
            return
    per_route = {}
    for route, op in collision_ops(eng):
        per_route.setdefault(route, []).append(op)
    k = case.get("pick", 0)
    n = 0
    for route, ops in sorted(per_route.items()):
        for op in (ops if case.get("all_ops") else (ops[k % len(ops)], ops[(k + 1) % len(ops)])):
            plan = eng.plan(op)
            if plan.status != "refuse":
                continue
            size = eng.model.count()
            out = eng.step(op, check_unchanged=True)
            rec.evals += 1
            if out.raised is None:
                continue  # not refused at all: C03's subject
            rec.cls("route=" + route)
            if size >= 3:
                n += 1
            for cat, bucket, detail in out.events:
                if cat == "changed-after-refusal":
                    rec.fail(bucket.replace("state-changed-after-refusal:", "state-changed-after-refusal:route:"), {"op": op, "raised": repr(out.raised)[:120]})
                    return
            inv = all_invariants(eng.tree)
            if inv:
                rec.fail(f"refusal:route:{route}:invariant:{inv[0][0]}", {"op": op, "detail": inv[0][1]})
                return
    rec.nt(n >= 1)


# ==================================================================================
# (b) callback faults
# ==================================================================================
class Boom(Exception):
    pass


class Fault:
    def __init__(self, fn):
        self.fn = fn
        self.k = None
        self.calls = 0
        self.armed = False

    def __call__(self, *a, **kw):
        if self.armed:
            self.calls += 1
            if self.k is not None and self.calls == self.k:
                raise Boom(f"fault at invocation {self.k}")
        return self.fn(*a, **kw)


class Item:
    def __init__(self, label):
        self.label = label
        self.guid = "g-" + label

    def __str__(self):
        return self.label

    def __repr__(self):
        return f"Item<{self.label}>"


def make_ops(accept):
    """name -> (callback kind, read_only, runner(tree, nodes, fault) )"""
    acc = set(accept)

    def pred_fn(node):
        return f"{node.data}" in acc

    def mapper_fn(node, data):
        data["label"] = f"{node.data}"
        return data

    def first_inner(nodes):
        for n in nodes:
            if n.children:
                return n
        return nodes[0] if nodes else None

    ops = {}

    def op(name, kind, read_only, base_fn):
        def deco(run):
            ops[name] = (kind, read_only, base_fn, run)
            return run

        return deco

    @op("filter(pred)", "predicate", False, pred_fn)
    def _(tree, nodes, f):
        tree.filter(f)

    @op("node.filter(pred)", "predicate", False, pred_fn)
    def _(tree, nodes, f):
        n = first_inner(nodes)
        if n is not None:
            n.filter(f)

    @op("filtered(pred)", "predicate", True, pred_fn)
    def _(tree, nodes, f):
        tree.filtered(f)

    @op("copy(predicate)", "predicate", True, pred_fn)
    def _(tree, nodes, f):
        tree.copy(predicate=f)

    @op("node.copy(predicate)", "predicate", True, pred_fn)
    def _(tree, nodes, f):
        n = first_inner(nodes)
        if n is not None:
            n.copy(predicate=f)

    @op("find_all(match)", "predicate", True, pred_fn)
    def _(tree, nodes, f):
        tree.find_all(match=f)

    @op("find_first(match)", "predicate", True, lambda n: False)
    def _(tree, nodes, f):
        tree.find_first(match=f)

    @op("node.find_all(match)", "predicate", True, pred_fn)
    def _(tree, nodes, f):
        n = first_inner(nodes)
        if n is not None:
            n.find_all(match=f, add_self=True)

    @op("save(mapper)", "mapper", True, mapper_fn)
    def _(tree, nodes, f):
        tree.save(io.StringIO(), mapper=f)

    @op("to_dict_list(mapper)", "mapper", True, mapper_fn)
    def _(tree, nodes, f):
        tree.to_dict_list(mapper=f)

    @op("to_dot(node_mapper)", "mapper", True, lambda n, d: None)
    def _(tree, nodes, f):
        list(tree.to_dot(node_mapper=f))

    @op("to_dot(edge_mapper)", "mapper", True, lambda n, d: None)
    def _(tree, nodes, f):
        list(tree.to_dot(edge_mapper=f))

    @op("to_dotfile(node_mapper)", "mapper", True, lambda n, d: None)
    def _(tree, nodes, f):
        tree.to_dotfile(io.StringIO(), node_mapper=f)

    @op("to_mermaid(node_mapper)", "mapper", True, lambda n: f"{n.data}")
    def _(tree, nodes, f):
        tree.to_mermaid_flowchart(io.StringIO(), node_mapper=f)

    @op("to_mermaid(edge_mapper)", "mapper", True, lambda a, b, c, d: f"{a} --> {c}")
    def _(tree, nodes, f):
        tree.to_mermaid_flowchart(io.StringIO(), edge_mapper=f)

    @op("to_rdf_graph(node_mapper)", "mapper", True, lambda g, gn, n: None)
    def _(tree, nodes, f):
        n = first_inner(nodes)
        if n is not None:
            n.to_rdf_graph(node_mapper=f)

    @op("sort(key)", "sort key", False, lambda n: f"{n.data}"[::-1])
    def _(tree, nodes, f):
        tree.sort(key=f)

    @op("sort_children(key)", "sort key", False, lambda n: f"{n.data}")
    def _(tree, nodes, f):
        n = first_inner(nodes)
        if n is not None:
            n.sort_children(key=f, reverse=True, deep=True)

    @op("visit(cb)", "visitor", True, lambda n, memo: None)
    def _(tree, nodes, f):
        tree.visit(f)

    @op("visit(cb,post)", "visitor", True, lambda n, memo: None)
    def _(tree, nodes, f):
        tree.visit(f, method=IterMethod.POST_ORDER)

    @op("node.visit(cb,level)", "visitor", True, lambda n, memo: None)
    def _(tree, nodes, f):
        n = first_inner(nodes)
        if n is not None:
            n.visit(f, add_self=True, method=IterMethod.LEVEL_ORDER)

    @op("format(repr)", "repr", True, lambda n: f"{n.data}")
    def _(tree, nodes, f):
        tree.format(repr=f)

    @op("format(repr,list)", "repr", True, lambda n: f"{n.data}")
    def _(tree, nodes, f):
        tree.format(repr=f, style="list")

    return ops


CALC_OPS = ["add(data)", "node.add(data)", "add(node-copy)", "set_data(data)", "set_data(with_clones)", "find_all(data)", "data in tree",
            "tree[data]", "save()", "copy()", "to_dict_list()", "load(mapper)", "from_dict(mapper)"]


def check_after(rec, opname, tree, before, read_only, k, K):
    inv = all_invariants(tree)
    if inv:
        rec.fail(f"fault:{opname}:invariant:{inv[0][0]}", {"k": k, "K": K, "detail": inv[0][1]})
        return False
    if read_only:
        u, snap0, probe0 = before
        if snapshot(tree, u, label=lambda n: repr(n.data)) != snap0 or index_probe(tree) != probe0:
            rec.fail(f"fault:{opname}:read-only-op-changed-tree", {"k": k, "K": K})
            return False
    return True


def _d11_collision_possible(spec, acc):
    """known finding D11: the duplicate of an accepted node collides with an accepted child of equal data"""

    def rec_(nodes):
        for n in nodes:
            if n[0] in acc and any(c[0] == n[0] for c in n[1]):
                return True
            if rec_(n[1]):
                return True
        return False

    return rec_(spec)


def run_faults(case, rec):
    spec, accept = case["spec"], case["accept"]
    typed = bool(case.get("typed"))
    if typed:
        rec.cls("typed")
    ops = make_ops(accept)
    names = case.get("ops") or sorted(ops)
    mid = 0
    for name in names:
        kind, read_only, base_fn, runner = ops[name]
        if rec.known("D11") and name in ("filtered(pred)", "copy(predicate)", "node.copy(predicate)") and _d11_collision_possible(spec, set(accept)):
            rec.excl("D11:duplicate-collides-with-kept-child")
            continue
        # fault-free run counts K
        tree, nodes = build(spec, typed=typed)
        f = Fault(base_fn)
        f.armed = True
        with warnings.catch_warnings():
            warnings.simplefilter("ignore")
            runner(tree, nodes, f)
        K = f.calls
        rec.cls(f"callback={kind}")
        for k in range(1, K + 1):
            tree, nodes = build(spec, typed=typed)
            u = Uids()
            before = (u, snapshot(tree, u, label=lambda n: repr(n.data)), index_probe(tree))
            f = Fault(base_fn)
            f.k = k
            f.armed = True
            rec.evals += 1
            try:
                with warnings.catch_warnings():
                    warnings.simplefilter("ignore")
                    runner(tree, nodes, f)
                escaped = False
            except Boom:
                escaped = True
            f.armed = False
            if not escaped:
                rec.cls("fault-swallowed-by-library")
            if 1 < k <= K:
                mid += 1
            if not check_after(rec, name, tree, before, read_only, k, K):
                return
    # ---- calc_data_id faults (the callback is wired into the tree) ---------------------------
    for name in CALC_OPS:
        K = None
        k = 0
        while True:
            fl_pool = {}

            def data_of(label):
                if label not in fl_pool:
                    fl_pool[label] = Item(label)
                return fl_pool[label]

            cb = Fault(lambda tree, data: data.guid if isinstance(data, Item) else hash(data))
            tree = Tree("T", calc_data_id=cb)
            nodes = []

            def add_all(parent, items):
                for item in items:
                    n = parent.add(data_of(item[0]))
                    nodes.append(n)
                    add_all(n, item[1])

            add_all(tree, spec)
            u = Uids()
            before = (u, snapshot(tree, u, label=lambda n: repr(n.data)), index_probe(tree))
            cb.k = k if k else None
            cb.armed = True
            read_only = name not in ("add(data)", "node.add(data)", "add(node-copy)", "set_data(data)", "set_data(with_clones)")
            rec.evals += 1
            try:
                _run_calc_op(name, tree, nodes, data_of)
            except Boom:
                pass
            except Exception as e:  # noqa: BLE001
                if k == 0:
                    # the operation itself is not applicable to this tree (e.g. ambiguous key): skip it
                    K = 0
                    break
                if not isinstance(e, Exception):
                    raise
            cb.armed = False
            if k == 0:
                K = cb.calls
                rec.cls("callback=calc_data_id")
            else:
                if 1 < k <= K:
                    mid += 1
                if not check_after(rec, name, tree, before, read_only, k, K):
                    return
            k += 1
            if k > K:
                break
    # ---- the library's own mappers (DictWrapper) as the user callback of read-only operations ---------
    if not _run_dictwrap_faults(rec, spec, typed):
        return
    if not _run_readonly(rec, spec, typed):
        return
    rec.nt(mid >= 1)


def _run_readonly(rec, spec, typed):
    """Read-only operations without any callback (lookups with and without a result limit, index access, iteration in
    every order, level-order visit, format, copy, dict form, save): tree and index are as before."""
    tree, nodes = build(spec, typed=typed)
    if not nodes:
        return True
    u = Uids()
    before = (u, snapshot(tree, u, label=lambda n: repr(n.data)), index_probe(tree))
    datas = []
    for n in nodes:
        if n.data not in datas:
            datas.append(n.data)
    first_inner = next((n for n in nodes if n.children), nodes[0])

    def lookups():
        for d in datas:
            for k in (1, 2, None):
                yield f"find_all(data,max_results={k})", lambda d=d, k=k: tree.find_all(d, max_results=k)
                yield f"find_all(data_id,max_results={k})", lambda d=d, k=k: tree.find_all(data_id=hash(d), max_results=k)
                yield f"node.find_all(data,max_results={k})", lambda d=d, k=k: first_inner.find_all(d, add_self=True, max_results=k)
            yield "find_first(data)", lambda d=d: tree.find_first(d)
            yield "data in tree", lambda d=d: d in tree
            yield "tree[data]", lambda d=d: tree[d]
        for absent in ("no-such-data", 987654321):
            yield "find_first(absent)", lambda a=absent: tree.find_first(a)
            yield "find(absent data_id)", lambda a=absent: tree.find(data_id=a)
            yield "find_all(absent)", lambda a=absent: tree.find_all(a)
            yield "absent in tree", lambda a=absent: a in tree
            yield "tree[absent]", lambda a=absent: tree[a]
            yield "node.find_first(absent)", lambda a=absent: first_inner.find_first(a)
        yield "find_all(match,max_results=1)", lambda: tree.find_all(match=".*", max_results=1)
        for m in IterMethod:
            yield f"iterator({m.value})", lambda m=m: list(tree.iterator(m))
        yield "visit(level)", lambda: tree.visit(lambda n, memo: None, method=IterMethod.LEVEL_ORDER)
        yield "node.visit(level)", lambda: first_inner.visit(lambda n, memo: None, add_self=True, method=IterMethod.LEVEL_ORDER)
        yield "format", lambda: tree.format()
        yield "copy", lambda: tree.copy()
        yield "to_dict_list", lambda: tree.to_dict_list()
        yield "save", lambda: tree.save(io.StringIO())
        yield "get_random_node", lambda: tree.get_random_node()
        yield "calc_height", lambda: tree.calc_height()

    for name, fn in lookups():
        rec.evals += 1
        try:
            with warnings.catch_warnings():
                warnings.simplefilter("ignore")
                fn()
        except Exception:  # noqa: BLE001  (an ambiguous key etc.: whatever it raises, it is read-only)
            pass
        if not check_after(rec, name, tree, before, True, 0, 0):
            return False
    rec.cls("read-only-without-callback")
    return True


def _run_dictwrap_faults(rec, spec, typed):
    """save() / to_dict_list() of a tree of DictWrapper objects with DictWrapper.serialize_mapper, maps that name
    keys of the wrapped dicts, and the mapper raising at its k-th call: read-only, the wrapped dicts included."""
    from vlib.build import Flavour

    from nutree.common import DictWrapper

    def names_of(tree):
        out = []
        for n in tree:
            v = n.data._dict.get("name")
            if v not in out:
                out.append(v)
        return out

    runs = {
        "save(DictWrapper.serialize_mapper,key_map+value_map on data keys)":
            lambda tree, f: tree.save(io.StringIO(), mapper=f, key_map={"name": "n"}, value_map={"name": names_of(tree)}),
        "save(DictWrapper.serialize_mapper)": lambda tree, f: tree.save(io.StringIO(), mapper=f),
        "to_dict_list(DictWrapper.serialize_mapper)": lambda tree, f: tree.to_dict_list(mapper=f),
    }
    for name, runner in runs.items():
        K = None
        k = 0
        while True:
            tree, nodes = build(spec, flavour=Flavour("dictwrap"), typed=typed)
            u = Uids()
            before = (u, snapshot(tree, u, label=lambda n: repr(n.data)), index_probe(tree))
            f = Fault(DictWrapper.serialize_mapper)
            f.k = k if k else None
            f.armed = True
            rec.evals += 1
            try:
                runner(tree, f)
            except Boom:
                pass
            f.armed = False
            if k == 0:
                K = f.calls
                rec.cls("callback=library-mapper(DictWrapper)")
            if not check_after(rec, name, tree, before, True, k, K):
                return False
            k += 1
            if k > K:
                break
    return True


def _run_calc_op(name, tree, nodes, data_of):
    first = nodes[0] if nodes else None
    if name == "add(data)":
        tree.add(data_of("zz-new"))
    elif name == "node.add(data)":
        if first is not None:
            first.add(data_of("zz-new"))
    elif name == "add(node-copy)":
        if len(nodes) >= 2 and all(c.data_id != nodes[-1].data_id for c in tree.children):
            tree.add(nodes[-1], deep=True)
    elif name == "set_data(data)":
        if first is not None and not first.is_clone():
            first.set_data(data_of("zz-new"))
    elif name == "set_data(with_clones)":
        for n in nodes:
            if n.is_clone():
                n.set_data(data_of("zz-new"), with_clones=True)
                break
    elif name == "find_all(data)":
        if first is not None:
            tree.find_all(first.data)
    elif name == "data in tree":
        if first is not None:
            _ = first.data in tree
            _ = data_of("zz-absent") in tree
    elif name == "tree[data]":
        for n in nodes:
            if not n.is_clone():
                _ = tree[n.data]
                break
    elif name == "save()":
        tree.save(io.StringIO(), mapper=lambda node, data: dict(data, label=node.data.label))
    elif name == "copy()":
        tree.copy()
    elif name == "to_dict_list()":
        tree.to_dict_list()
    elif name == "load(mapper)":
        buf = io.StringIO()
        tree.save(buf, mapper=lambda node, data: dict(data, label=node.data.label))
        buf.seek(0)
        t2 = Tree.load(buf, mapper=lambda parent, data: Item(data["label"]))
        inv = all_invariants(t2)
        if inv:
            raise AssertionError(f"loaded tree violates invariants: {inv[0]}")
    elif name == "from_dict(mapper)":
        lst = tree.to_dict_list(mapper=lambda node, data: dict(data, label=node.data.label))
        Tree.from_dict(lst, mapper=lambda parent, item: Item(item["label"]))


# ==================================================================================
@st.composite
def refusal_cases(draw, tier):
    typed = draw(st.sampled_from([False, False, True]))
    kinds = ["add", "add", "add_node", "add_node", "copy_to", "move", "move", "set_data", "rename", "del", "remove",
             "add_tree", "append_sibling", "prepend_sibling", "append_child", "remove", "add_node_ids", "shortcut_tree"]
    case = draw(gen_ops.histories(typed=typed, max_ops=25 if tier == "quick" else 50, kinds=kinds, max_nodes=12, invalid_bias=True))
    if draw(st.sampled_from([0, 0, 1])):
        # directed tail: children leave a parent (the caller keeps the references), the parent gets new children,
        # then one of the stale references is used as `before=` position below that same parent
        p = draw(st.integers(-1, 11))
        drop = ["clear"] if p < 0 else draw(st.sampled_from([["remove_children", p], ["remove_children", p], ["filter", []]]))
        lab = st.sampled_from(gen_ops.LABELS)
        tail = [drop, ["add", p, draw(lab), None, {}], ["add", p, draw(lab), None, {}]]
        for _ in range(draw(st.integers(1, 3))):
            g = ["g", draw(st.integers(0, 10))]
            tail.append(draw(st.sampled_from([
                ["add", p, draw(lab), g, {}],
                ["move", draw(st.integers(0, 11)), p, g],
                ["add_node", p, 0, draw(st.integers(0, 11)), None, g],
                ["copy_to", draw(st.integers(0, 11)), p, True, g, False],
            ])))
        keep = draw(st.integers(0, min(4, len(case["ops"]))))
        case["ops"] = case["ops"][:keep] + tail
    return case


@st.composite
def big_merge_cases(draw, tier):
    """a refused bulk copy between two LONG child lists (4..129 x 4..129 children, the one conflicting child at a
    generated place): whatever was copied before the conflict is noticed must not stay behind"""
    sizes = [4, 11, 33, 41, 65, 129]
    w1 = draw(st.sampled_from(sizes))
    w2 = draw(st.sampled_from(sizes))
    j = draw(st.sampled_from([0, 1, w1 // 2, w1 - 2, w1 - 1]))
    k = draw(st.sampled_from([0, 1, w2 // 2, w2 - 1]))
    typed = draw(st.sampled_from([False, False, True]))
    conflict = draw(st.sampled_from([True, True, True, False]))
    src = [[f"p{i}", [["x", []]] if i in (0, j) else []] for i in range(w1)]
    tgt = [[(f"p{j}" if (i == k and conflict) else f"q{i}"), []] for i in range(w2)]
    spec = [["P", src], ["Q", tgt]]
    ref_q = 1 + gen.spec_nodes(src)
    deep = draw(st.sampled_from([None, True, False]))
    op = draw(st.sampled_from([
        ["copy_to", 0, ref_q, False, None, bool(deep)],
        ["add_tree", ref_q, draw(st.sampled_from([None, True, ["i", 0], ["c", k]])), deep],
        ["shortcut_tree", draw(st.sampled_from(["append_child", "prepend_child"])), ref_q, deep],
        ["shortcut_tree", draw(st.sampled_from(["prepend_sibling", "append_sibling"])), ref_q + 1 + draw(st.sampled_from([0, w2 - 1])), deep],
    ]))
    return {"spec": spec, "spec2": [list(n) for n in src], "typed": typed, "ops": [op, ["add", ref_q, "zz", None, {}]]}


@st.composite
def big_refusal_cases(draw, tier):
    typed = draw(st.sampled_from([False, False, True]))
    kinds = ["add", "add_node", "add_node", "copy_to", "move", "move", "set_data", "rename", "add_tree", "prepend_sibling", "add_node_ids", "shortcut_tree", "sort", "remove"]
    return draw(gen_ops.histories(typed=typed, max_ops=4, min_ops=2, kinds=kinds, invalid_bias=True, big=1))


@st.composite
def fault_cases(draw, tier):
    spec = draw(gen.forest_specs(max_nodes=10, max_depth=4, max_width=4, min_nodes=2, alphabet=["a", "b", "c", "d", "e"], big=(20, 41)))
    accept = draw(st.lists(st.sampled_from(["a", "b", "c", "d", "e"]), max_size=4, unique=True))
    case = {"spec": spec, "accept": accept}
    if draw(st.sampled_from([0, 0, 1])):
        case["typed"] = True
        kinds = ["x", "y", "child"]
        c = [0]

        def with_kinds(nodes):
            for n in nodes:
                del n[2:]
                n.append({"kind": kinds[c[0] % 3]})
                c[0] += 1
                with_kinds(n[1])

        with_kinds(spec)
    return case


def route_cases(tier):
    from checks.c03_sibling_unique import hyp_routes

    return hyp_routes(tier)


# (what round 8 added to the case domain; part of the evidence text)
RULE_ROUND8 = " One generated forest in 20 (60 in the thorough tier) is a BIG one (gen.big_specs: a child list of 11..300 nodes, that many clones of one data object, more than 256 nodes), with node references aimed at notable positions of the long child lists. Part big-merges: a refused bulk copy (copy_to(add_self=False), add(tree), shortcut methods) between two child lists of 4..129 nodes with the conflicting child at a generated place. Part big-trees: 2-4 operations with invalid arguments on a big tree. Part warnings-as-errors: the refusal histories with warnings.simplefilter('error') in effect - EVERY call that raises must leave the tree as it was. before= also a node of an unrelated tree of the other node class. Part python-O: refusals and faults with PYTHONOPTIMIZE=1."
RULE = RULE + RULE_ROUND8 + " Part directed-un-nest-patterns: C03's patterns, every colliding operation refused with the tree unchanged."

PARTS = [
    Part("refusals", run_refusals, strategy=refusal_cases, n={"quick": 600, "thorough": 100000}),
    Part("collision-routes", run_collision_routes, strategy=route_cases, n={"quick": 300, "thorough": 60000}),
    Part("directed-un-nest-patterns", run_collision_routes, enum=lambda tier: __import__("checks.c03_sibling_unique", fromlist=["x"]).directed_unnest_cases(tier)),
    Part("faults", run_faults, strategy=fault_cases, n={"quick": 80, "thorough": 10000}),
    Part("warnings-as-errors", run_refusals_strict_warnings, strategy=refusal_cases, n={"quick": 200, "thorough": 20000}),
    Part("big-merges", run_refusals, strategy=big_merge_cases, n={"quick": 150, "thorough": 5000}),
    Part("big-trees", run_refusals, strategy=big_refusal_cases, n={"quick": 150, "thorough": 10000}),
    optimized_part("C13", ['refusals', 'faults']),
]
