"""C17 - DOT / Mermaid / RDF exports describe exactly the tree's edges (DESIGN section 3, C17)."""

from __future__ import annotations

import io
import os
import re
import tempfile
from collections import Counter
from pathlib import Path

from hypothesis import strategies as st

from vlib import gen
from vlib.build import build
from vlib.core import Part
from vlib.observe import walk

import rdflib
from rdflib import Literal, URIRef
from rdflib.namespace import XSD

from nutree import StopTraversal
from nutree.rdf import NUTREE_NS

ID = "C17"
LEVEL = "exploration"
TECHNIQUE = 'property-based testing: exports are parsed back and compared with edges recomputed from a structural walk'
LEVEL_TEXT = 'exploration: generated plain/typed trees with clones x DOT/Mermaid/RDF x unique_nodes x root inclusion'
RULE = (
    "case = (tree spec with clones / explicit ids / kinds, typed?, start); per case every combination of format in "
    "{DOT, Mermaid, RDF} x unique_nodes on/off x add_root/add_self on/off is exported, parsed back into (graph nodes "
    "with labels, multiset of labelled edges) and compared with the node keys and parent->child edges recomputed "
    "from an independent structural walk (Mermaid: up to renaming of the opaque node numbers; RDF: exact triple "
    "set). DOT is produced by to_dot(), by to_dot() with node/edge mappers that only add a colour/shape, and by "
    "to_dotfile() to a file path and to a stream. Non-trivial: exported branch has a clone group and depth >= 2; distinct = distinct (spec, typed, start). "
    "Part export-mutate-export exports ONE tree (tree and one start node, all combinations) before a generated "
    "mutation history (move, remove, add, clones, re-keying, sort), after a generated subset of its steps and at its "
    "end (non-trivial there: >= 2 rounds of exports, one of a branch as above)."
)
ASSUMPTIONS = [
    "data_ids that differ have different texts (graph node keys are the text of the data_id: the int 42 and the str '42' are not used together)",
    "labels, kinds and explicit data_ids contain no whitespace, quotes or syntax characters of the three formats",
    "a graph node defined twice with the same key is one graph node (DOT semantics); only the set of keys and their labels is compared",
    "rdflib's Graph is the trusted triple store; RDF graphs are sets, so edges are compared as a set there",
]

DOT_NODE = re.compile(r'^  (\S+)(?: \[(.*)\])?$')
DOT_EDGE = re.compile(r'^  (\S+) -> (\S+)(?: \[(.*)\])?$')
ATTR = re.compile(r'(\w+)="([^"]*)"')


def parse_dot(lines):
    nodes, edges = [], []
    section = None
    problems = []
    if not lines or not lines[0].startswith("#") or not lines[1].startswith("digraph ") or lines[-1] != "}":
        problems.append("frame")
    for ln in lines[2:-1]:
        if ln.strip() == "":
            continue
        if ln.startswith("  # Node Definitions"):
            section = "nodes"
            continue
        if ln.startswith("  # Edge Definitions"):
            section = "edges"
            continue
        if ln.startswith("  # "):
            section = "other"
            continue
        if section == "nodes":
            m = DOT_NODE.match(ln)
            if not m:
                problems.append(("node-line", ln))
                continue
            nodes.append((m.group(1), dict(ATTR.findall(m.group(2) or ""))))
        elif section == "edges":
            m = DOT_EDGE.match(ln)
            if not m:
                problems.append(("edge-line", ln))
                continue
            edges.append((m.group(1), m.group(2), dict(ATTR.findall(m.group(3) or "")).get("label")))
        elif section != "other":
            problems.append(("stray-line", ln))
    return nodes, edges, problems


MM_ROOT = re.compile(r'^(\d+)\{\{"(.*)"\}\}$')
MM_NODE = re.compile(r'^(\d+)\("(.*)"\)$')
MM_EDGE = re.compile(r'^(\d+) --> (\d+)$')
MM_EDGE_T = re.compile(r'^(\d+)-- "(.*)" -->(\d+)$')


def parse_mermaid(text):
    nodes, edges, problems = [], [], []
    section = None
    for ln in text.split("\n"):
        if ln.startswith("%% Nodes:"):
            section = "nodes"
            continue
        if ln.startswith("%% Edges:"):
            section = "edges"
            continue
        if ln.strip() == "" or ln.startswith("```"):
            continue
        if section == "nodes":
            m = MM_ROOT.match(ln) or MM_NODE.match(ln)
            if not m:
                problems.append(("node-line", ln))
                continue
            nodes.append((m.group(1), m.group(2), bool(MM_ROOT.match(ln))))
        elif section == "edges":
            m = MM_EDGE.match(ln)
            if m:
                edges.append((m.group(1), m.group(2), None))
                continue
            m = MM_EDGE_T.match(ln)
            if m:
                edges.append((m.group(1), m.group(3), m.group(2)))
                continue
            problems.append(("edge-line", ln))
    return nodes, edges, problems


def find_bijection(out_nodes, out_edges, exp_nodes, exp_edges, hint):
    """out_nodes: {oid: label}; exp_nodes: {key: label}; edges: Counter of (a, b, lab).
    Return True iff some label- and edge-preserving bijection exists."""
    if len(out_nodes) != len(exp_nodes) or sum(out_edges.values()) != sum(exp_edges.values()):
        return False

    def ok(mapping):
        return Counter((mapping[a], mapping[b], l) for (a, b, l), c in out_edges.items() for _ in range(c)) == exp_edges

    if hint is not None and len(hint) == len(out_nodes) and all(out_nodes[o] == exp_nodes[k] for o, k in hint.items()) and len(set(hint.values())) == len(hint):
        if ok(hint):
            return True
    oids = list(out_nodes)
    used = set()
    mapping = {}

    def bt(i):
        if i == len(oids):
            return ok(mapping)
        o = oids[i]
        for k, lab in exp_nodes.items():
            if k in used or lab != out_nodes[o]:
                continue
            mapping[o] = k
            used.add(k)
            # prune: edges among already mapped nodes must exist in exp
            good = True
            for (a, b, l), c in out_edges.items():
                if a in mapping and b in mapping and exp_edges.get((mapping[a], mapping[b], l), 0) < c:
                    good = False
                    break
            if good and bt(i + 1):
                return True
            used.discard(k)
            del mapping[o]
        return False

    return bt(0)


def run(case, rec):
    typed = case["typed"]
    tree, nodes = build(case["spec"], typed=typed, name="T")
    start_i = case["start"]
    start = None if start_i < 0 or not nodes else nodes[start_i % len(nodes)]
    check_exports(tree, start, rec, typed, variant=case.get("dot", "to_dot"), prior_abort=bool(case.get("prior_abort")))


def check_exports(tree, start, rec, typed, nt=True, variant="to_dot", prior_abort=False):
    w = walk(tree)
    rec.cls(f"dot-variant={variant}")
    if prior_abort and w.pre:
        # an earlier RDF export whose node_mapper ended it early; nothing is asserted about that call itself
        inner = next((n for n in w.pre if w.kids[id(n)]), w.pre[0])
        for first_only in (True, False):
            try:
                def stopper(graph, graph_node, tree_node, first_only=first_only):
                    if first_only or tree_node is not inner:
                        raise StopTraversal()

                inner.to_rdf_graph(node_mapper=stopper)  # ends at the start node / at its first descendant
            except Exception:  # noqa: BLE001
                pass
        rec.cls("after-an-RDF-export-ended-by-its-mapper")
    tname = tree.name
    ev = 0

    def desc_of(n):
        out = []

        def r(x):
            for c in w.kids[id(x)]:
                out.append(c)
                r(c)

        r(n)
        return out

    branch = list(w.pre) if start is None else desc_of(start)
    ids_in = [n.data_id for n in branch]
    depth = max([w.depth[id(n)] for n in branch], default=0) - (0 if start is None else w.depth[id(start)])
    interesting = len(set(ids_in)) < len(ids_in) and depth >= 2
    if nt:
        rec.nt(interesting)
    rec.cls("typed" if typed else "plain")
    rec.cls("start=tree" if start is None else "start=node")
    root_obj = tree.system_root if start is None else start

    for unique in (True, False):
        for with_root in (True, False):
            def key(n):
                return n.data_id if unique else n.node_id

            exp_nodes = {}
            if with_root:
                exp_nodes[str(key(root_obj))] = tname if start is None else f"{start.data}"
            for n in branch:
                exp_nodes.setdefault(str(key(n)), f"{n.data}")
            exp_edges = Counter()
            for n in branch:
                p = w.parent[id(n)]
                pobj = p if p is not None else tree.system_root
                if pobj is root_obj and not with_root:
                    continue
                exp_edges[(str(key(pobj)), str(key(n)), n.kind if typed else None)] += 1
            desc = {"unique_nodes": unique, "with_root": with_root, "start": None if start is None else f"{start.data}"}

            # ---------------- DOT ----------------
            ev += 1
            dv = variant
            if dv == "mappers":
                # mappers that only add a colour / a shape: ids, labels and the kind labels of the edges stay
                mk = {"node_mapper": lambda node, data: data.update(shape="box"), "edge_mapper": lambda node, data: data.update(color="red")}
            else:
                mk = {}
            if start is None and dv in ("dotfile-path", "dotfile-stream"):
                if dv == "dotfile-path":
                    fd, path = tempfile.mkstemp(prefix="verif_c17_", suffix=".gv")
                    os.close(fd)
                    try:
                        if len(w.pre) % 2:
                            # the target exists and holds an older, longer export: it is replaced, not patched
                            with open(path, "w") as fp:
                                fp.write("digraph Old {\n" + "".join(f"  {i} -> {i + 1};\n" for i in range(400)) + "}\n")
                        tree.to_dotfile(path if unique else Path(path), add_root=with_root, unique_nodes=unique)
                        with open(path) as fp:
                            text = fp.read()
                    finally:
                        os.unlink(path)
                else:
                    buf = io.StringIO()
                    tree.to_dotfile(buf, add_root=with_root, unique_nodes=unique)
                    text = buf.getvalue()
                lines = text.split("\n")
                while lines and lines[-1] == "":
                    lines.pop()
            elif start is None:
                lines = list(tree.to_dot(add_root=with_root, unique_nodes=unique, **mk))
            else:
                lines = list(start.to_dot(add_self=with_root, unique_nodes=unique, **mk))
            dn, de, problems = parse_dot(lines)
            if problems:
                rec.fail("dot:unparsable", dict(desc, problems=problems[:3]))
            else:
                got_nodes = {}
                for k_, attrs in dn:
                    # a key defined twice is one graph node; a later definition may add the label (DOT semantics)
                    if got_nodes.get(k_) is None:
                        got_nodes[k_] = attrs.get("label")
                if with_root and start is not None:
                    # a non-system-root start node is emitted without label - unless one of its descendants shares
                    # its key (a clone of the start node inside the branch): that child's name labels the graph node
                    exp_cmp = dict(exp_nodes)
                    rk = str(key(root_obj))
                    same_key = [n for n in branch if str(key(n)) == rk]
                    if same_key:
                        exp_cmp[rk] = f"{same_key[0].data}"  # the first definition that carries a label
                    elif got_nodes.get(rk) is None:
                        exp_cmp[rk] = None
                else:
                    exp_cmp = exp_nodes
                if got_nodes != exp_cmp:
                    rec.fail("dot:nodes", dict(desc, got=got_nodes, exp=exp_cmp))
                if Counter(de) != exp_edges:
                    rec.fail("dot:edges", dict(desc, got=sorted(map(str, Counter(de).items())), exp=sorted(map(str, exp_edges.items()))))

            # ---------------- Mermaid ----------------
            ev += 1
            buf = io.StringIO()
            if start is None:
                tree.to_mermaid_flowchart(buf, add_root=with_root, unique_nodes=unique)
            else:
                start.to_mermaid_flowchart(buf, add_self=with_root, unique_nodes=unique)
            mn, me, problems = parse_mermaid(buf.getvalue())
            if problems:
                rec.fail("mermaid:unparsable", dict(desc, problems=problems[:3]))
            else:
                out_nodes = {o: lab for o, lab, _ in mn}
                if len(out_nodes) != len(mn):
                    rec.fail("mermaid:duplicate-node-number", desc)
                roots = [o for o, _, is_root in mn if is_root]
                if (len(roots) == 1) != with_root:
                    rec.fail("mermaid:root-node", dict(desc, roots=roots))
                out_edges = Counter(me)
                hint = dict(zip([o for o, _, _ in mn], list(exp_nodes)))
                if not find_bijection(out_nodes, out_edges, exp_nodes, exp_edges, hint):
                    rec.fail("mermaid:graph", dict(desc, got_nodes=mn, got_edges=me, exp_nodes=exp_nodes, exp_edges=sorted(map(str, exp_edges.items()))))
                elif with_root and roots:
                    # the root-shaped node must be the start/root
                    if out_nodes[roots[0]] != exp_nodes[str(key(root_obj))]:
                        rec.fail("mermaid:root-label", desc)
        if rec.failed:
            break

    # ---------------- RDF (always keyed by data_id) ----------------
    for with_root in (True, False) if start is not None else (True,):
        ev += 1
        if start is None:
            g = tree.to_rdf_graph()
        else:
            g = start.to_rdf_graph(add_self=with_root)
        exp = set()
        sysroot = URIRef(NUTREE_NS.system_root)
        if start is None:
            exp.add((sysroot, NUTREE_NS.name, Literal(tname)))
        elif with_root:
            lit = Literal(start.data_id)
            if typed:
                exp.add((lit, NUTREE_NS.kind, Literal(start.kind)))
            exp.add((lit, NUTREE_NS.name, Literal(f"{start.data}")))
        for n in branch:
            p = w.parent[id(n)]
            lit = Literal(n.data_id)
            if p is None:
                pkey = sysroot
            else:
                pkey = Literal(p.data_id)
            parent_exported = True
            if start is not None and p is start and not with_root:
                parent_exported = False
            if parent_exported:
                exp.add((pkey, NUTREE_NS.has_child, lit))
            if typed:
                exp.add((lit, NUTREE_NS.kind, Literal(n.kind)))
            exp.add((lit, NUTREE_NS.name, Literal(f"{n.data}")))
            sibs = w.kids[id(p)]
            idx = [i for i, s in enumerate(sibs) if s is n][0]
            exp.add((lit, NUTREE_NS.index, Literal(idx, datatype=XSD.integer)))
        got = set(g)
        if got != exp:
            miss = sorted(map(str, exp - got))[:4]
            extra = sorted(map(str, got - exp))[:4]
            kinds = set()
            for t in list(exp - got) + list(got - exp):
                kinds.add(str(t[1]).rsplit("/", 1)[-1])
            rec.fail("rdf:triples:" + "+".join(sorted(kinds)), {"with_root": with_root, "missing": miss, "extra": extra, "start": None if start is None else f"{start.data}"})
        elif start is None:
            # the node-level export called on the system root without add_self: the whole tree without its root
            ev += 1
            g3 = set(tree.system_root.to_rdf_graph(add_self=False))
            exp3 = {t for t in exp if t[0] != sysroot}
            # (the node-level export names a root it writes "__root__"; none is written here)
            if {t for t in g3 if "root" in str(t[0])} or {(t[1], t[2]) for t in g3} != {(t[1], t[2]) for t in exp3}:
                rec.fail("rdf:system_root.to_rdf_graph(add_self=False)", {"missing": sorted(map(str, exp3 - g3))[:4], "extra": sorted(map(str, g3 - exp3))[:4]})
    assert isinstance(g, rdflib.Graph)
    # ---------------- RDF with a node_mapper that returns False for leaves ("no standard attributes for this node",
    # it adds its own triple instead): every parent->child edge must still be there -----------------------------
    if branch and start is not None:  # (node_mapper is an option of the node-level export)
        leaves = {id(n) for n in branch if not w.kids[id(n)]}

        def leaf_mapper(graph, graph_node, tree_node):
            if id(tree_node) in leaves:
                graph.add((graph_node, NUTREE_NS.name, Literal("custom:" + f"{tree_node.data}")))
                return False
            return None

        ev += 1
        g2 = start.to_rdf_graph(add_self=True, node_mapper=leaf_mapper)
        exp_edges2 = set()
        for n in branch:
            p = w.parent[id(n)]
            exp_edges2.add((Literal(p.data_id), NUTREE_NS.has_child, Literal(n.data_id)))
        got_edges2 = {t for t in g2 if t[1] == NUTREE_NS.has_child}
        if got_edges2 != exp_edges2:
            rec.fail("rdf:has_child-edges-with-a-mapper-that-returns-False", {"missing": sorted(map(str, exp_edges2 - got_edges2))[:4], "extra": sorted(map(str, got_edges2 - exp_edges2))[:4]})
    rec.evals += ev
    return interesting


def run_requery(case, rec):
    """Export, restructure (move, remove, add, re-key, sort), export the same tree again."""
    from vlib import requery

    typed = bool(case.get("typed"))
    seen = []

    def check(tree, rec, eng):
        w = walk(tree)
        start = w.pre[case["start"] % len(w.pre)] if (w.pre and case["start"] >= 0) else None
        seen.append(check_exports(tree, None, rec, typed, nt=False))
        if start is not None and not rec.failed:
            seen.append(check_exports(tree, start, rec, typed, nt=False))

    q = requery.run(case, rec, check)
    rec.nt(bool(q and q >= 2 and any(seen)))


@st.composite
def requery_cases(draw, tier):
    from vlib import requery

    case = draw(requery.cases(max_ops=6, max_nodes=9,
                              kinds=["move"] * 5 + ["remove"] * 2 + ["add"] * 2 + ["add_node"] * 3 + ["sort"] * 2 + ["set_data", "rename", "remove_children", "prepend_sibling"]))
    case["start"] = draw(st.integers(-1, 8))
    return case


@st.composite
def hyp_cases(draw, tier):
    typed = draw(st.booleans())
    opts = gen.node_opts(explicit_ids=True, kinds=typed)
    spec = draw(gen.forest_specs(max_nodes=14, max_depth=5, max_width=4, min_nodes=0, opts=opts, alphabet=["a", "b", "c", "d", "a1", "b1", "ä"]))
    gen.fix_sibling_ids(spec)

    def distinct_as_text(nodes):
        # graph node keys are the text of the data_id: the int 42 and the str "42" would be one key in any export
        for nd in nodes:
            if len(nd) > 2 and nd[2] and nd[2].get("id") == "42":
                nd[2]["id"] = "s42"
            distinct_as_text(nd[1])

    distinct_as_text(spec)
    gen.fix_sibling_ids(spec)
    n = gen.spec_nodes(spec)
    return {"spec": spec, "typed": typed, "start": draw(st.integers(-1, max(0, n - 1))),
            "dot": draw(st.sampled_from(["to_dot", "to_dot", "mappers", "dotfile-path", "dotfile-stream"])),
            "prior_abort": draw(st.sampled_from([0, 0, 0, 1]))}


# (what round 8 added to the case domain; part of the evidence text)
RULE_ROUND8 = ' One generated forest in 20 (60 in the thorough tier) is a BIG one (gen.big_specs: a child list of 11..300 nodes, that many clones of one data object, more than 256 nodes), with node references aimed at notable positions of the long child lists. (width <= 130 in the mutate-export part). to_dotfile(<path>) also onto an existing, longer file.'
RULE = RULE + RULE_ROUND8

RULE_ROUND9 = " tree.system_root.to_rdf_graph(add_self=False) = the tree's triples without the root's."
RULE = RULE + RULE_ROUND9

PARTS = [
    Part("exports", run, strategy=lambda tier: hyp_cases(tier), n={"quick": 1500, "thorough": 150000}),
    Part("export-mutate-export", run_requery, strategy=lambda tier: requery_cases(tier), n={"quick": 300, "thorough": 20000}),
]
