"""C19 - load_tree_from_fs mirrors the directory it scanned (DESIGN section 3, C19)."""

from __future__ import annotations

import os
import tempfile

from hypothesis import strategies as st

from vlib.core import Part
from vlib.observe import walk

from nutree.fs import FileSystemEntry, FileSystemTree, load_tree_from_fs

ID = "C19"
LEVEL = "exploration"
TECHNIQUE = 'property-based testing: generated directory trees materialised on disk, mirror oracle + save/load round trip'
LEVEL_TEXT = 'exploration: generated directory specs (sort-sensitive names, empty folders, zero-byte files, equal names in several folders, generated mtimes)'
RULE = (
    "case = (directory spec: nesting <= 4, empty folders, names from a pool with upper/lower case, digits, dots, "
    "dashes, spaces, non-ASCII letters (also not NFC-normalised, and one name whose bytes are not valid UTF-8), hard links (a second name for an existing file), named pipes and dangling symlinks (no nodes), the same name in several folders, file sizes 0..5000, generated mtimes; "
    "sort on/off), materialised in a per-case temporary directory. Oracle: spec and tree are walked together (name "
    "sets, is_dir, size == os.stat().st_size, mdate == os.stat().st_mtime, with sort: files by code-point name then "
    "directories by name); then save -> FileSystemTree.load must preserve class, names, flags, sizes, mdates and "
    "order. In half of the cases files are then rewritten (other size, other mtime): the tree returned by the first "
    "scan must still read as it did - also when it is looked at for the first time only after the change -, and a "
    "second scan of the same path must mirror the new state. "
    "Non-trivial: some folder has >= 2 files and >= 2 sub-folders; distinct = distinct spec."
)
ASSUMPTIONS = [
    "case-sensitive POSIX file system with sub-second mtimes under the temporary directory",
    "name order means Python str order (code points), as produced by sorted()",
    "os.stat is the trusted source for size and mtime",
]

NAMES = ["a.txt", "B.txt", "b.txt", "Z", "_x", "10", "9", "ä.txt", "Ärger", "file-1", "file 2", ".hidden", "README", "Makefile", "zeta.PY", "App",
         # names that are prefixes of each other / contain characters that sort around quotes and brackets
         "lib", "lib64", "v1", "v10", "notes", "notes (copy)", "it's.txt", "src", "src-old", "a]b", "a'b",
         # legal names that are not in Unicode normal form C (decomposed accent, Ohm / Angstrom sign): the tree
         # carries the name as it is on disk
         "e\u0301.txt", "\u2126", "\u212b.dat", "cafe\u0301",
         # a name whose bytes on disk are not valid UTF-8 (b"caf\xe9.txt": os.fsdecode gives a lone surrogate)
         "caf\udce9.txt"]


def materialise(spec, path):
    for name, size, mtime in spec["files"]:
        p = os.path.join(path, name)
        with open(p, "wb") as f:
            f.write(b"x" * size)
        os.utime(p, (mtime, mtime))
    for d in spec["dirs"]:
        p = os.path.join(path, d["name"])
        os.mkdir(p)
        materialise(d, p)


def stat_map(root):
    """path -> (size, mtime) of every file below root (os.walk + os.stat: the trusted reference)."""
    out = {}
    for dirpath, _dirs, files in os.walk(root):
        for f in files:
            full = os.path.join(dirpath, f)
            if not os.path.isfile(full):
                continue  # named pipe / dangling symlink
            st_ = os.stat(full)
            out[full] = (st_.st_size, st_.st_mtime)
    return out


def add_hard_links(spec, root, picks):
    """Hard links: a second name (in any folder) for a file that is already there - two directory entries, one inode.
    picks: list of (source index, target folder index, new name).  The spec gets the additional entries."""
    files, folders = [], []

    def collect(sp, path):
        folders.append((sp, path))
        for f in sp["files"]:
            files.append((f, os.path.join(path, f[0])))
        for d in sp["dirs"]:
            collect(d, os.path.join(path, d["name"]))

    collect(spec, root)
    made = 0
    for si, fi, name in picks:
        if not files:
            break
        (f, src), (sp, folder) = files[si % len(files)], folders[fi % len(folders)]
        if any(x[0] == name for x in sp["files"]) or any(d["name"] == name for d in sp["dirs"]):
            continue
        os.link(src, os.path.join(folder, name))
        sp["files"].append([name, f[1], f[2]])
        made += 1
    return made


def compare(rec, spec, path, children, sort, which, stats=None):
    """children: list of tree nodes for folder `path` described by `spec`.
    stats: path -> (size, mtime) recorded earlier (default: os.stat now)."""
    exp_files = {f[0]: f for f in spec["files"]}
    exp_dirs = {d["name"]: d for d in spec["dirs"]}
    got_names = [c.data.name for c in children]
    if sorted(got_names) != sorted(list(exp_files) + list(exp_dirs)):
        rec.fail(f"{which}:names", [path, got_names, sorted(list(exp_files) + list(exp_dirs))])
        return
    if sort:
        exp_order = sorted(exp_files) + sorted(exp_dirs)
        if got_names != exp_order:
            rec.fail(f"{which}:order", [got_names, exp_order])
    for c in children:
        e = c.data
        if not isinstance(e, FileSystemEntry):
            rec.fail(f"{which}:data-class", repr(type(e)))
            return
        full = os.path.join(path, e.name)
        if e.name in exp_dirs:
            if e.is_dir is not True:
                rec.fail(f"{which}:is_dir", [e.name, e.is_dir])
            compare(rec, exp_dirs[e.name], full, list(c.children), sort, which, stats)
        else:
            if e.is_dir:
                rec.fail(f"{which}:is_dir", [e.name, e.is_dir])
                continue
            try:
                got_size, got_mdate = e.size, e.mdate
            except Exception as ex:  # noqa: BLE001
                rec.fail(f"{which}:entry-unreadable", [e.name, repr(ex)])
                continue
            if stats is None:
                stt = os.stat(full)
                st_size, st_mtime = stt.st_size, stt.st_mtime
            else:
                st_size, st_mtime = stats[full]
            if got_size != st_size or got_size != exp_files[e.name][1]:
                rec.fail(f"{which}:size", [e.name, got_size, st_size])
            if got_mdate != st_mtime:
                rec.fail(f"{which}:mdate", [e.name, repr(got_mdate), repr(st_mtime)])
            if c.children:
                rec.fail(f"{which}:file-with-children", e.name)


def view(tree):
    w = walk(tree)

    def one(n):
        e = n.data
        return [e.name, bool(e.is_dir), e.size, e.mdate, [one(c) for c in w.kids[id(n)]]]

    return [one(n) for n in w.kids[id(None)]]


def interesting(spec):
    if len(spec["files"]) >= 2 and len(spec["dirs"]) >= 2:
        return True
    return any(interesting(d) for d in spec["dirs"])


def run(case, rec):
    cwd, home = os.getcwd(), os.environ.get("HOME")
    try:
        return _run(case, rec)
    finally:
        os.chdir(cwd)
        if home is None:
            os.environ.pop("HOME", None)
        else:
            os.environ["HOME"] = home


def _run(case, rec):
    spec, sort = case["spec"], case["sort"]
    with tempfile.TemporaryDirectory(prefix="verif_c19_") as tmp:
        # the folder's own name is the caller's business too: "~" and "~name" are legal directory names
        root_name = case.get("root_name", "root")
        root = os.path.join(tmp, root_name)
        os.mkdir(root)
        if case.get("many"):
            # one folder with MANY entries, every seventh a sub-directory (their names interleave with the files')
            spec = dict(spec, files=list(spec["files"]), dirs=list(spec["dirs"]))
            for i in range(case["many"]):
                nm = f"e{i:03}"
                if i % 7 == 3:
                    spec["dirs"].append({"name": nm, "files": [], "dirs": []})
                else:
                    spec["files"].append([nm, 0, 1_600_000_000 + i])
            rec.cls("folder-with-many-entries")
        materialise(spec, root)
        if case.get("dirlink") and not case.get("rescan"):
            # a symbolic link to a directory that lives deeper in the same tree: it is a directory entry of its own
            # name (sorted by that name), showing the target's content
            deep = []

            def collect_deep(sp, path, depth):
                for d in sp["dirs"]:
                    pth = os.path.join(path, d["name"])
                    if depth >= 1:
                        deep.append((d, pth))
                    collect_deep(d, pth, depth + 1)

            collect_deep(spec, root, 0)
            k, lname = case["dirlink"]
            if deep and not os.path.lexists(os.path.join(root, lname)):
                tspec, tpath = deep[k % len(deep)]
                os.symlink(tpath, os.path.join(root, lname), target_is_directory=True)
                spec = dict(spec, dirs=list(spec["dirs"]) + [dict(tspec, name=lname)])
                rec.cls("symlink-to-a-directory")
        scan_arg = root
        if case.get("relative"):
            # a relative path argument is resolved against the current directory (and taken literally)
            os.mkdir(os.path.join(tmp, "home"))
            os.environ["HOME"] = os.path.join(tmp, "home")
            os.chdir(tmp)
            scan_arg = root_name if case["relative"] == "plain" else os.path.join(".", root_name)
            rec.cls("relative-path-argument")
        if case.get("specials"):
            # directory members that are neither a file nor a directory (a named pipe, a symlink that points nowhere):
            # they are no nodes of the tree, with sorting on or off
            folders = []

            def collect_(sp, path):
                folders.append((sp, path))
                for d in sp["dirs"]:
                    collect_(d, os.path.join(path, d["name"]))

            collect_(spec, root)
            for fi, kind_, name in case["specials"]:
                sp, folder = folders[fi % len(folders)]
                if any(x[0] == name for x in sp["files"]) or any(d["name"] == name for d in sp["dirs"]):
                    continue
                pth = os.path.join(folder, name)
                if os.path.lexists(pth):
                    continue
                if kind_ == "fifo":
                    os.mkfifo(pth)
                else:
                    os.symlink("no-such-target-" + name, pth)
            rec.cls("special-directory-members")
        if case.get("links") and not case.get("rescan"):
            if add_hard_links(spec, root, case["links"]):
                rec.cls("hard-links")
        tree = load_tree_from_fs(scan_arg, sort=sort) if case.get("sort_kw", True) else load_tree_from_fs(scan_arg)
        if not case.get("sort_kw", True):
            sort = True  # documented default
        rec.evals += 1
        if type(tree) is not FileSystemTree:
            rec.fail("scan:class", repr(type(tree)))
            return
        late = bool(case.get("rescan")) and bool(case.get("late_read"))
        if late:
            # the caller looks at the returned tree only after the directory has changed (files rewritten, one
            # deleted): the tree must show what was there when it was scanned
            import copy

            spec_then, stats_then = copy.deepcopy(spec), stat_map(root)
        else:
            compare(rec, spec, root, list(tree.children), sort, "scan")
            if rec.failed:
                return
        # ---- multi-step: change files on disk and scan the same path again ------------------
        if case.get("rescan"):
            changed = 0
            scanned = None
            if not late:
                try:
                    scanned = view(tree)  # what the scan returned, read before the disk changes
                except Exception as e:  # noqa: BLE001
                    rec.fail("scan:entry-unreadable", repr(e))
                    return

            def touch(sp, path):
                nonlocal changed
                for f in sp["files"]:
                    if (len(f[0]) + f[1]) % 2 == 0:
                        f[1] = f[1] + 3
                        f[2] = f[2] + 1000.5
                        p = os.path.join(path, f[0])
                        with open(p, "wb") as fh:
                            fh.write(b"y" * f[1])
                        os.utime(p, (f[2], f[2]))
                        changed += 1
                for d in sp["dirs"]:
                    touch(d, os.path.join(path, d["name"]))

            touch(spec, root)
            # the tree returned by the first scan is a record of what was scanned: it does not follow the disk
            rec.evals += 1
            if late:
                rec.cls("first-look-at-the-tree-after-the-disk-changed")
                compare(rec, spec_then, root, list(tree.children), sort, "scan(read-late)", stats_then)
                if rec.failed:
                    return
            else:
                try:
                    later = view(tree)
                except Exception as e:  # noqa: BLE001
                    rec.fail("scan:entry-unreadable-after-the-disk-changed", repr(e))
                    return
                if later != scanned:
                    rec.fail("scan:tree-changed-when-the-disk-changed", {"scanned": scanned, "later": later})
                    return
            tree = load_tree_from_fs(scan_arg, sort=sort)
            rec.evals += 1
            rec.cls("rescan-after-modification")
            compare(rec, spec, root, list(tree.children), sort, "rescan")
            if rec.failed:
                return
        rec.nt(interesting(spec))
        rec.cls("sort" if sort else "unsorted")
        # ---- save / load ------------------------------------------------------------
        target = os.path.join(tmp, "tree.nutree")
        comp = case.get("compression", False)
        if case.get("save_stream_ascii"):
            # a stream of the caller's choosing that can only encode ASCII
            with open(target, "w", encoding="ascii") as fp:
                tree.save(fp)
            with open(target, "r", encoding="ascii") as fp:
                loaded = FileSystemTree.load(fp)
            rec.cls("save-to-ascii-stream")
        else:
            tree.save(target, compression=comp)
            loaded = FileSystemTree.load(target)
        rec.evals += 1
        if type(loaded) is not FileSystemTree:
            rec.fail("load:class", repr(type(loaded)))
            return
        v1, v2 = view(tree), view(loaded)
        if v1 != v2:
            rec.fail("load:roundtrip", {"scanned": v1, "loaded": v2})
            return
        compare(rec, spec, root, list(loaded.children), sort, "load")
        if rec.failed:
            return
        # trees DERIVED from the scanned one are FileSystemTrees as well: the loaded tree and a copy of the scanned
        # tree are saved and loaded again (second generation)
        for which, derived in (("loaded", loaded), ("copy", tree.copy())):
            rec.evals += 1
            t2 = os.path.join(tmp, f"gen2-{which}.nutree")
            try:
                if type(derived) is not FileSystemTree:
                    rec.fail(f"second-generation:{which}:class", repr(type(derived)))
                    return
                derived.save(t2)
                again = FileSystemTree.load(t2)
            except Exception as e:  # noqa: BLE001
                rec.fail(f"second-generation:{which}:raises:{type(e).__name__}", repr(e)[:200])
                return
            if view(again) != v1:
                rec.fail(f"second-generation:{which}:roundtrip", {"scanned": v1, "again": view(again)})
                return


@st.composite
def dir_spec(draw, depth, name="root"):
    names = draw(st.lists(st.sampled_from(NAMES), min_size=0, max_size=6 if depth > 0 else 3, unique=True))
    files, dirs = [], []
    for nm in names:
        is_dir = depth > 0 and draw(st.sampled_from([False, False, True]))
        if is_dir:
            dirs.append(draw(dir_spec(depth - 1, nm)))
        else:
            size = draw(st.sampled_from([0, 0, 1, 7, 100, 4096, 5000]))
            mtime = 1_500_000_000 + draw(st.integers(0, 10**8)) + draw(st.sampled_from([0.0, 0.5, 0.123456, 0.25]))
            if draw(st.sampled_from([0] * 5 + [1])):
                # an old file (restored from an archive): small time stamps carry more decimals in a float
                mtime = draw(st.sampled_from([12345.000000123, 100_000_000.1234567, 2**29 - 5 + 0.9999999, 0.5, 86400 * 365.25 * 10 + 0.0000004]))
            files.append([nm, size, mtime])
    return {"name": name, "files": files, "dirs": dirs}


@st.composite
def hyp_cases(draw, tier):
    case = {"spec": draw(dir_spec(draw(st.integers(1, 4)))), "sort": draw(st.sampled_from([True, True, False]))}
    if draw(st.sampled_from([0, 0, 0, 1])):
        case["sort_kw"] = False
    if draw(st.sampled_from([0, 0, 1])):
        case["compression"] = True
    if draw(st.sampled_from([0, 0, 1])):
        case["save_stream_ascii"] = True
    if draw(st.sampled_from([0, 0, 1])):
        case["links"] = draw(st.lists(st.tuples(st.integers(0, 20), st.integers(0, 10), st.sampled_from(["link1", "Zlink", "a.lnk"])).map(list), min_size=1, max_size=3))
    if draw(st.sampled_from([0, 0, 1])):
        case["specials"] = draw(st.lists(st.tuples(st.integers(0, 10), st.sampled_from(["fifo", "dangling"]), st.sampled_from(["pipe0", "Zz.sock", "a.lnk2"])).map(list), min_size=1, max_size=3))
    if draw(st.sampled_from([0, 0, 0, 1])):
        case["root_name"] = draw(st.sampled_from(["~", "~verif", "r t", "~root"]))
    if draw(st.sampled_from([0, 0, 1])):
        case["relative"] = draw(st.sampled_from(["plain", "dot"]))
    if draw(st.sampled_from([0] * 9 + [1])):
        case["many"] = draw(st.sampled_from([130, 140, 200, 260]))
    if draw(st.sampled_from([0, 0, 1])):
        case["dirlink"] = [draw(st.integers(0, 8)), draw(st.sampled_from(["0link", "A-link", "zz-link", "link"]))]
    if draw(st.sampled_from([0, 1])):
        case["rescan"] = True
        if draw(st.sampled_from([0, 1])):
            case["late_read"] = True
    return case


# (what round 8 added to the case domain; part of the evidence text)
RULE_ROUND8 = " Root folders literally named '~', '~verif', '~root', 'r t', scanned through relative path arguments ('name', './name') after chdir, HOME pointing at an empty directory; one case in ten has a folder with 130-260 entries (every seventh a sub-directory); one file in six carries a modification time before 1987 with a sub-microsecond fraction."
RULE = RULE + RULE_ROUND8

RULE_ROUND9 = " The loaded tree and a copy of the scanned tree are saved and loaded again (second generation); a third of the cases without rescan hold a symbolic link to a deeper directory under a name that sorts elsewhere (an entry of its own name with the target's content)."
RULE = RULE + RULE_ROUND9

PARTS = [
    Part("directories", run, strategy=lambda tier: hyp_cases(tier), n={"quick": 500, "thorough": 20000}),
]
