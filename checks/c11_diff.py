"""C11 - diff() marks exactly the one-sided children and projects back to both inputs (DESIGN section 3, C11)."""

from __future__ import annotations

from hypothesis import strategies as st

from vlib import gen
from vlib.build import build
from vlib.core import Part
from vlib.observe import Uids, snapshot, walk

from nutree import Tree
from nutree.diff import DiffClassification as DC

ID = "C11"
LEVEL = "exploration"
TECHNIQUE = 'property-based testing with projection laws on a single diff result (metamorphic / relational oracle)'
LEVEL_TEXT = 'exploration: generated pairs (edit scripts and independent trees) x ordered x reduce; eight laws relate the single result to both inputs by label path'
RULE = (
    "case = (T0 spec over a small alphabet with clones, T1 = T0 after a random edit script (remove / insert / move / "
    "reorder / rename subtree) or an independently drawn tree, ordered, reduce). Oracle: projection laws on the single "
    "result (L0 identical copy -> no marks; L1 result minus removed/moved-away == T1 as unordered labelled tree; L2 "
    "children minus added/moved-here == T0 child list in order below common nodes; L3 one-sided marks exactly on "
    "one-sided children; L4 moved-here <-> moved-away with equal data; L5 order marks == (index in T0, index in T1), "
    "iff ordered and different; L6 reduce keeps exactly marked nodes + ancestors; L7 inputs unchanged; L8 result nodes carry the data_id of the input nodes they stand for - a third of the cases give some labels an explicit data_id (the same in both trees), half of the cases put user metadata on some input nodes before the comparison), with nodes "
    "identified by their label path (sibling labels are unique). Non-trivial: >= 1 one-sided child and >= 1 common "
    "child that has children; distinct = distinct case."
)
ASSUMPTIONS = [
    "string data without explicit data_ids (peer matching by data and one-sided detection by data_id coincide)",
    "two diff() calls are never compared with each other: which of several added occurrences is re-classified as moved-here depends on set iteration order",
    "descendants of a removed node are not part of the result (documented TODO); descendants of an added node are copied",
]


def paths_of(spec):
    """-> dict path(tuple) -> list of child labels (in order)."""
    out = {}

    def rec(nodes, prefix):
        out[prefix] = [n[0] for n in nodes]
        for n in nodes:
            rec(n[1], prefix + (n[0],))

    rec(spec, ())
    return out


def apply_edits(spec, edits):
    """Pure spec edit script; every step keeps sibling labels unique."""
    import copy

    spec = copy.deepcopy(spec)

    def all_lists(nodes, acc):
        acc.append(nodes)
        for n in nodes:
            all_lists(n[1], acc)
        return acc

    for e in edits:
        lists = all_lists(spec, [])
        kind = e[0]
        lst = lists[e[1] % len(lists)]
        if kind == "remove" and lst:
            lst.pop(e[2] % len(lst))
        elif kind == "insert":
            lab = e[3]
            if all(n[0] != lab for n in lst):
                lst.insert(e[2] % (len(lst) + 1), [lab, []])
        elif kind == "rename" and lst:
            lab = e[3]
            if all(n[0] != lab for n in lst):
                lst[e[2] % len(lst)][0] = lab
        elif kind == "reorder" and len(lst) > 1:
            i = e[2] % len(lst)
            j = e[3] % len(lst)
            lst.insert(j, lst.pop(i))
        elif kind == "drop_leading" and lst:
            del lst[: 1 + e[2] % len(lst)]
        elif kind == "drop_trailing" and lst:
            del lst[len(lst) - 1 - e[2] % len(lst) :]
        elif kind == "move" and lst:
            node = lst.pop(e[2] % len(lst))
            lists2 = all_lists(spec, [])
            dst = lists2[e[3] % len(lists2)]
            if all(n[0] != node[0] for n in dst):
                dst.insert(e[4] % (len(dst) + 1), node)
            else:
                lst.insert(e[2] % (len(lst) + 1), node)
    return spec


def run_data_kinds(case, rec):
    """diff() matches nodes by data_id / equality of the data - what KIND of object the data is plays no role: the
    same two forests built with plain dicts (unhashable; data_id from a calc_data_id callback, as in the user guide),
    with objects keyed by a callback and with frozen dataclasses give the same annotated result, label for label, as
    with strings."""
    from vlib.build import Flavour

    spec0 = case["t0"]
    spec1 = apply_edits(spec0, case["edits"]) if "edits" in case else case["t1"]
    ordered, reduce_ = case["ordered"], case["reduce"]
    results = {}
    for fname in ("str", case.get("flavour", "dict_cb")):
        fl = Flavour(fname)
        t0, _ = build(spec0, flavour=fl, name="T0")
        t1, _ = build(spec1, flavour=fl, name="T1")
        rec.evals += 1
        try:
            res = t0.diff(t1, ordered=ordered, reduce=reduce_)
        except Exception as e:  # noqa: BLE001
            rec.fail(f"data-kind:{fname}:diff-raises:{type(e).__name__}", {"exc": repr(e)[:200], "ordered": ordered, "reduce": reduce_})
            return
        w = walk(res)
        if w.problems:
            rec.fail(f"data-kind:{fname}:result-not-a-tree", w.problems)
            return

        def lab(d):
            return d if isinstance(d, str) else (d["name"] if isinstance(d, dict) else (d[0] if isinstance(d, tuple) else d.name))

        def coarse(dc):
            # which of several clones counts as "moved" and which as "added"/"removed" is left open here (the pairs
            # part holds every mark against its admissible set): one side only - on which side
            if dc in (DC.ADDED, DC.MOVED_HERE):
                return "+"
            if dc in (DC.REMOVED, DC.MOVED_TO):
                return "-"
            return repr(dc)

        def one(n):
            return [lab(n.data), coarse(n.get_meta("dc")), sorted((k, repr(v)) for k, v in (n.meta or {}).items() if k != "dc"), [one(c) for c in w.kids[id(n)]]]

        results[fname] = [one(n) for n in w.kids[id(None)]]
    rec.cls("flavour=" + case.get("flavour", "dict_cb"))

    def labels(spec, acc):
        for n in spec:
            acc.append(n[0])
            labels(n[1], acc)
        return acc

    l0, l1 = labels(spec0, []), labels(spec1, [])
    if len(set(l0)) != len(l0) or len(set(l1)) != len(l1):
        # with clones, WHICH of them counts as the moved one is not determined (and reduce=True prunes below a
        # moved node): only "no exception, a well-formed result" is held against these cases
        rec.cls("with-clones:no-comparison")
        return
    rec.nt(spec0 != spec1 and gen.spec_nodes(spec0) >= 3)
    a, b = results.values()
    if a != b:
        rec.fail("data-kind:result-differs-from-the-string-version", {"flavour": case.get("flavour", "dict_cb"), "str": a, "other": b})


def run(case, rec):
    spec0 = case["t0"]
    spec1 = apply_edits(spec0, case["edits"]) if "edits" in case else case["t1"]
    ordered, reduce_ = case["ordered"], case["reduce"]
    # some labels carry an explicit data_id (the same one in both trees): diff() matches nodes by data_id
    idmap = set(case.get("explicit_ids") or [])

    def with_ids(spec):
        return [[n[0], with_ids(n[1])] + ([{"id": "id-" + n[0]}] if n[0] in idmap else []) for n in spec]

    if case.get("distinct_label_objects"):
        # the second tree holds equal labels that are other str objects (as after save/load, or labels that were
        # computed at run time): nodes are matched by data_id / equality, never by the identity of the data
        def fresh(spec):
            return [["".join(list(n[0])), fresh(n[1])] for n in spec]

        spec1 = fresh(spec1)
        rec.cls("equal-labels-are-distinct-objects")

    if idmap:
        rec.cls("explicit-data_ids")
    t0, nodes0 = build(with_ids(spec0), name="T0")
    t1, nodes1 = build(with_ids(spec1), name="T1")
    # user metadata on some input nodes (set before the comparison): it is part of the inputs' observable state
    for nodes_, idxs in ((nodes0, case.get("meta0") or []), (nodes1, case.get("meta1") or [])):
        for i in idxs:
            if nodes_:
                nodes_[i % len(nodes_)].set_meta("user", i)
    if case.get("meta0") or case.get("meta1"):
        rec.cls("inputs-with-user-meta")
    u = Uids()
    before0, before1 = snapshot(t0, u), snapshot(t1, u)
    res = t0.diff(t1, ordered=ordered, reduce=reduce_)
    rec.evals += 1
    if snapshot(t0, u) != before0 or snapshot(t1, u) != before1:
        rec.fail("L7:input-modified")
        return
    if type(res) is not Tree or res is t0 or res is t1:
        rec.fail("result-class", repr(res))
        return
    P0, P1 = paths_of(spec0), paths_of(spec1)
    w = walk(res)
    if w.problems:
        rec.fail("result-not-a-tree", w.problems)
        return
    # the result is a tree like any other: its count, lookups and clone queries show the nodes that are in it
    from vlib.invariants import all_invariants

    inv = all_invariants(res)
    if inv:
        rec.fail(f"result-tree:invariant:{inv[0][0]}", {"detail": inv[0][1], "ordered": ordered, "reduce": reduce_})
        return
    # result nodes by label path
    R = {}
    Rkids = {(): [n.data for n in w.kids[id(None)]]}

    def rpath(n):
        p = []
        x = n
        while x is not None:
            p.append(x.data)
            x = w.parent[id(x)]
        return tuple(reversed(p))

    for n in w.pre:
        p = rpath(n)
        if p in R:
            rec.fail("result:duplicate-sibling-data", list(p))
            return
        R[p] = n
        Rkids[p] = [c.data for c in w.kids[id(n)]]

    # L8: a result node stands for input node(s) with the same data: it carries their data_id
    for p, n in R.items():
        want = ("id-" + p[-1]) if p[-1] in idmap else hash(p[-1])
        if n.data_id != want:
            rec.fail("L8:result-node-data_id", {"path": list(p), "got": repr(n.data_id), "exp": repr(want)})
            return

    common = {p for p in P0 if p in P1}
    removed = {p for p in P0 if p not in P1 and p[:-1] in common}
    added_all = {p for p in P1 if p not in P0}
    added_top = {p for p in added_all if p[:-1] in common}

    def dc(p):
        return R[p].get_meta("dc")

    one_sided = bool(removed or added_top)
    rec.nt(one_sided and any(P0[p] and P1[p] for p in common if p))
    rec.cls(f"ordered={ordered},reduce={reduce_}")
    identical = spec0 == spec1
    if identical:
        rec.cls("identical")

    # ---- L0 ---------------------------------------------------------------------------
    if identical:
        marked = [list(p) for p, n in R.items() if n.meta]
        if marked:
            rec.fail("L0:marks-on-identical-copy", marked[:3])
        if reduce_ and R:
            rec.fail("L0:reduce-of-identical-not-empty", [list(p) for p in R][:3])

    # ---- expected marks per path (a set of admissible values) ------------------------------
    def order_mark(p):
        i0 = P0[p[:-1]].index(p[-1])
        i1 = P1[p[:-1]].index(p[-1])
        return (i0, i1) if ordered and i0 != i1 else None

    def admissible(p):
        if p in common:
            return {order_mark(p)}
        if p in removed:
            return {DC.REMOVED, DC.MOVED_TO}
        if p in added_top or (p in added_all and p[:-1] in added_top):
            return {DC.ADDED, DC.MOVED_HERE}
        if p in added_all:
            return {None, DC.MOVED_HERE}
        return None  # must not be in the result at all

    # ---- membership -----------------------------------------------------------------------
    full = common | removed | added_all
    full.discard(())
    for p in R:
        adm = admissible(p)
        if adm is None:
            rec.fail("L1/L2:foreign-node-in-result", list(p))
            return
        got = dc(p)
        if got not in adm:
            if p in common:
                rec.fail("L5:order-mark" if (isinstance(got, tuple) or order_mark(p)) else "L3:one-sided-mark-on-common-node", [list(p), repr(got), repr(order_mark(p))])
            elif p in removed:
                rec.fail("L3:removed-child-mark", [list(p), repr(got)])
            else:
                rec.fail("L3:added-child-mark", [list(p), repr(got)])
    if rec.failed:
        return

    if not reduce_:
        missing = [list(p) for p in full if p not in R]
        if missing:
            kind = "L1:T1-node-missing" if any(tuple(m) in P1 for m in missing) else "L2:T0-child-missing"
            rec.fail(kind, missing[:3])
            return
        # L2: order below common nodes; added subtrees in T1 order
        for p in common:
            kids = Rkids[p] if p else Rkids[()]
            t0_part = [k for k in kids if p + (k,) in P0]
            if t0_part != P0[p]:
                rec.fail("L2:T0-child-order", [list(p), t0_part, P0[p]])
            t1_only = [k for k in kids if p + (k,) not in P0]
            if t1_only != [k for k in P1[p] if p + (k,) not in P0]:
                rec.fail("L1:added-children", [list(p), t1_only, P1[p]])
        for p in added_all:
            if Rkids[p] != P1[p]:
                rec.fail("L1:added-subtree", [list(p), Rkids[p], P1[p]])
        for p in removed:
            if Rkids[p]:
                rec.fail("removed-node-has-children", [list(p), Rkids[p]])
        # dc_renumbered on parents
        for p in common:
            if not p:
                continue
            want = ordered and any(order_mark(p + (k,)) for k in P0[p] if p + (k,) in common)
            got = R[p].get_meta("dc_renumbered")
            if bool(got) != bool(want):
                rec.fail("L5:dc_renumbered", [list(p), repr(got), want])
    else:
        # L6: exactly the marked nodes and their ancestors
        need = set()
        for p in full:
            adm = admissible(p)
            if None not in adm:  # certainly marked
                for i in range(1, len(p) + 1):
                    need.add(p[:i])
        missing = [list(p) for p in need if p not in R]
        if missing:
            rec.fail("L6:reduce-dropped-marked-node-or-ancestor", missing[:3])
        for p, n in R.items():
            if not n.get_meta("dc"):
                # must have a marked descendant
                if not any(q[: len(p)] == p and len(q) > len(p) and R[q].get_meta("dc") for q in R):
                    rec.fail("L6:reduce-kept-unmarked-node", list(p))
                    break
        # order among kept T0 children still T0 order
        for p in common:
            if p and p not in R:
                continue
            kids = Rkids[p]
            t0_part = [k for k in kids if p + (k,) in P0]
            if t0_part != [k for k in P0[p] if k in t0_part]:
                rec.fail("L2:T0-child-order", [list(p), t0_part, P0[p]])

    # ---- L6b: reduce=True against a second, unreduced call (deterministic part only) ---------------
    if reduce_:
        full = t0.diff(t1, ordered=ordered, reduce=False)
        wf = walk(full)
        F = {}
        for n in wf.pre:
            pth, x = [], n
            while x is not None:
                pth.append(x.data)
                x = wf.parent[id(x)]
            F[tuple(reversed(pth))] = n
        # Which of several T1-only occurrences of one label is re-classified as moved-here (and hence which
        # removed occurrences become moved-away) depends on set iteration order: those labels are skipped.
        from collections import Counter as _C

        added_labels = _C(p[-1] for p in added_all)
        ambiguous = {lab for lab, c in added_labels.items() if c > 1}
        required = set()
        for p, n in F.items():
            if n.get_meta("dc") and p[-1] not in ambiguous:
                for i in range(1, len(p) + 1):
                    required.add(p[:i])
        miss = [list(p) for p in required if p not in R]
        if miss:
            rec.fail("L6:reduce-result-lacks-node-marked-in-unreduced-result", {"missing": miss[:3]})
        else:
            for p in required:
                if p[-1] in ambiguous:
                    continue
                a, b = F[p].get_meta("dc"), R[p].get_meta("dc")
                if a and a != b:
                    rec.fail("L6:mark-differs-between-reduced-and-unreduced-result", [list(p), repr(a), repr(b)])
                    break

    # ---- L4: moves ------------------------------------------------------------------------------
    here = [p for p in R if dc(p) == DC.MOVED_HERE]
    away = [p for p in R if dc(p) == DC.MOVED_TO]
    for p in here:
        if not any(q[-1] == p[-1] for q in away):
            rec.fail("L4:moved-here-without-moved-away", list(p))
    for p in away:
        if not any(q[-1] == p[-1] for q in here):
            rec.fail("L4:moved-away-without-moved-here", list(p))
    if not reduce_:
        # a removed and an added occurrence of the same data must be classified as a move
        # (only for nodes that carry an added-mark, i.e. T1-only children of common parents and the direct
        # children of such nodes - the documented example re-classifies exactly these)
        rem_plain = {p[-1] for p in R if dc(p) == DC.REMOVED}
        for p in R:
            if (p in added_top or (p in added_all and p[:-1] in added_top)) and p[-1] in rem_plain:
                rec.fail("L4:remove+add-of-same-data-not-classified-as-move", list(p))
                break
    # result references the same data objects
    for p, n in R.items():
        if not isinstance(n.data, str) or n.data != p[-1]:
            rec.fail("result:data", list(p))
            break


# two-character labels: an equal but distinct str object can be made for them (single characters are shared by CPython)
LABELS = ["aa", "bb", "cc", "dd", "ee"]


@st.composite
def hyp_cases(draw, tier):
    t0 = draw(gen.forest_specs(max_nodes=14, max_depth=4, max_width=5, min_nodes=0, alphabet=LABELS))
    case = {"t0": t0, "ordered": draw(st.booleans()), "reduce": draw(st.booleans())}
    mode = draw(st.sampled_from(["edits", "edits", "edits", "independent", "identical"]))
    if mode == "independent":
        case["t1"] = draw(gen.forest_specs(max_nodes=14, max_depth=4, max_width=4, alphabet=LABELS))
    elif mode == "identical":
        case["edits"] = []
    else:
        edit = st.one_of(
            st.tuples(st.just("remove"), st.integers(0, 30), st.integers(0, 5)),
            st.tuples(st.just("insert"), st.integers(0, 30), st.integers(0, 5), st.sampled_from(LABELS + ["xx"])),
            st.tuples(st.just("rename"), st.integers(0, 30), st.integers(0, 5), st.sampled_from(LABELS + ["xx"])),
            st.tuples(st.just("reorder"), st.integers(0, 30), st.integers(0, 5), st.integers(0, 5)),
            st.tuples(st.just("drop_leading"), st.integers(0, 30), st.integers(0, 5)),
            st.tuples(st.just("drop_trailing"), st.integers(0, 30), st.integers(0, 5)),
            st.tuples(st.just("move"), st.integers(0, 30), st.integers(0, 5), st.integers(0, 30), st.integers(0, 5)),
        )
        case["edits"] = [list(e) for e in draw(st.lists(edit, min_size=1, max_size=6))]
    if draw(st.sampled_from([0, 0, 1])):
        case["explicit_ids"] = draw(st.lists(st.sampled_from(LABELS + ["xx"]), min_size=1, max_size=4, unique=True))
    if draw(st.sampled_from([0, 1])):
        case["distinct_label_objects"] = True
    if draw(st.sampled_from([0, 1])):
        case["meta0"] = draw(st.lists(st.integers(0, 13), min_size=1, max_size=4))
        case["meta1"] = draw(st.lists(st.integers(0, 13), min_size=0, max_size=4))
    return case


@st.composite
def kind_cases(draw, tier):
    case = draw(hyp_cases(tier))
    case["flavour"] = draw(st.sampled_from(["dict_cb", "dict_cb", "obj_cb", "dc", "tuple"]))
    if draw(st.sampled_from([0, 1, 1])):
        # every label once per tree: moves are unambiguous, the results must agree label for label
        case["t0"] = draw(gen.forest_specs(max_nodes=12, max_depth=4, max_width=4, min_nodes=2, unique=True, big=False))
        case.pop("t1", None)
        if "edits" not in case:
            case["edits"] = draw(st.lists(st.one_of(
                st.tuples(st.just("remove"), st.integers(0, 30), st.integers(0, 5)),
                st.tuples(st.just("insert"), st.integers(0, 30), st.integers(0, 5), st.sampled_from(["xx", "yy", "zz"])),
                st.tuples(st.just("reorder"), st.integers(0, 30), st.integers(0, 5), st.integers(0, 5)),
                st.tuples(st.just("move"), st.integers(0, 30), st.integers(0, 5), st.integers(0, 30), st.integers(0, 5)),
            ).map(list), min_size=1, max_size=4))
    return case


# (what round 8 added to the case domain; part of the evidence text)
RULE_ROUND8 = ' One generated forest in 20 (60 in the thorough tier) is a BIG one (gen.big_specs: a child list of 11..300 nodes, that many clones of one data object, more than 256 nodes), with node references aimed at notable positions of the long child lists. Part data-kinds: the same two forests built with plain dicts (calc_data_id callback), objects, frozen dataclasses and tuples; for clone-free forests the annotated result must equal the string version label for label (added/moved-here and removed/moved-away merged), with clones: no exception and a well-formed result.'
RULE = RULE + RULE_ROUND8

RULE_ROUND9 = ' All structural and index invariants are evaluated on the result tree.'
RULE = RULE + RULE_ROUND9

PARTS = [
    Part("pairs", run, strategy=lambda tier: hyp_cases(tier), n={"quick": 3000, "thorough": 400000}),
    Part("data-kinds", run_data_kinds, strategy=lambda tier: kind_cases(tier), n={"quick": 600, "thorough": 60000}),
]
