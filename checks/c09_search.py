"""C09 - searches return exactly the matching nodes, in order, within the limit (DESIGN section 3, C09)."""

from __future__ import annotations

import functools

import re

from hypothesis import strategies as st

from vlib import gen
from vlib.build import Flavour, GuidTree, GuidTypedTree, Person, build
from vlib.core import Part
from vlib.observe import shape, walk

from nutree import AmbiguousMatchError, Node, Tree, TypedTree

ID = "C09"
LEVEL = "exploration"
TECHNIQUE = 'property-based testing; direct re.fullmatch / scan recomputation for every start, pattern and limit'
LEVEL_TEXT = 'exploration: generated trees with clones / explicit and colliding ids; per tree every start x fixed pattern grammar x limits, all data / data_id lookups and every index-access key kind are recomputed directly'
RULE = (
    "case = tree spec with clones, multi-character / mixed-case / int labels, explicit str and int data_ids and "
    "explicit int node_ids that may collide with another node's data_id. Per case, for EVERY start (tree, each node, "
    "add_self on/off) x every pattern of a fixed regex grammar over the label alphabet (+ (pattern, flags) form + "
    "predicates) x k in {None,1,2,3,100}: find_all/find_first/find compared with a direct re.fullmatch scan of the "
    "pre-order list; data / data_id lookups with limits on the index path (Tree) and scan path (Node); tree[key], "
    "key in tree, del tree[key] for every key kind (data, data_id, node_id, absent, ambiguous, Node, colliding "
    "ints). Non-trivial: some query had more matches than its limit or addressed a clone group; distinct = distinct spec. "
    "Part callback-ids-typed repeats all of it on plain and typed trees whose data_ids come from a calc_data_id callback "
    "or a Tree subclass (objects as data). Part query-mutate-query evaluates the same queries on ONE tree before a "
    "generated mutation history (clones appear and disappear, nodes are re-keyed, moved, removed), after a generated "
    "subset of its steps and at its end (non-trivial there: >= 2 evaluations, one of them with a clone group or a limit hit)."
)
ASSUMPTIONS = [
    "re.fullmatch of CPython is the trusted matcher",
    "a result limit truncates: exactly min(k, #matches) results are expected (ordered searches: the first k in pre-order; index/data lookups: any k distinct matches)",
    "find_first by data/data_id may return any member of the clone group (docstring: 'one arbitrary matching node')",
    "the calc_data_id callback used here is total (objects without a guid fall back to hash), as a lookup key may be any object",
]

# (-1 and 2**61 + 5 are ints whose hash - their data_id - differs from the value: hash(-1) == -2, hash(2**61 + 5) == 6)
LABELS = ["a", "b", "c", "a1", "b1", "ab", "A", "B1", 3, 7, -1, 2**61 + 5]
PATTERNS = [
    "A!", "A.*!", "[AB]1?!", ".*!",  # only match the names of the custom node class
    "a", "b1", "zz", "a.*", ".*1", "[ab].*", "a|b1", "(a|b).?", ".*", "[A-Z].*", "\\d", ".", "a1?",
    ["a.*", re.I], ["B1|AB", re.I], [".*", 0], ["a", re.I], ["b", 0], ["[ab]", re.I],
]
PREDS = [["a", "b"], ["a1", "3", "B1"], []]
LIMITS = [None, 1, 2, 3, 100]


def nm(x):
    if x is None:
        return None
    if isinstance(x, (list, tuple)):
        return [nm(i) for i in x]
    return f"{x.data!r}/{x.data_id!r}/{x.node_id if x.node_id != id(x) else ''}"


def same_list(a, b):
    a, b = list(a), list(b)
    return len(a) == len(b) and all(x is y for x, y in zip(a, b))


def call(fn, *a, **kw):
    try:
        return ("ok", fn(*a, **kw))
    except Exception as e:  # noqa: BLE001
        return ("exc", e)


def _guid_cb(tree, data):
    """calc_data_id callback in the style of the user guide (objects carry their id), total on every key."""
    g = getattr(data, "guid", None)
    return g if g is not None else hash(data)


class ShoutingNode(Node):
    """custom node class (Tree(factory=...)) whose `name` - the string that pattern searches match - is not str(data)"""

    @property
    def name(self):
        return f"{self.data}".upper() + "!"


def _name_in(nameset, n):
    return f"{n.data}" in nameset


class _NameIn:
    def __init__(self, nameset):
        self.nameset = nameset

    def __call__(self, n):
        return f"{n.data}" in self.nameset


class _Key(int):
    """an int subclass (as IntEnum / IntFlag members are)"""

    def __repr__(self):
        return f"_Key({int(self)})"


def make_tree(case):
    """(tree, id-function of the tree's documented data_id rule)."""
    fln, typed = case.get("flavour", "str"), bool(case.get("typed"))
    if fln == "factory":
        tree, _nodes = build(case["spec"], flavour=Flavour("str"), tree=Tree("T", factory=ShoutingNode))
        return tree, hash
    fl = Flavour(fln)
    if fln == "dict_cb":
        t = (TypedTree if typed else Tree)("T", calc_data_id=lambda tree, data: data["guid"] if isinstance(data, dict) else hash(data))
    elif fln == "obj_cb":
        t = (TypedTree if typed else Tree)("T", calc_data_id=_guid_cb)
    elif fln == "obj_sub":
        t = (GuidTypedTree if typed else GuidTree)("T")
    else:
        t = (TypedTree if typed else Tree)("T")
    tree, _nodes = build(case["spec"], flavour=fl, typed=typed, tree=t)
    idf = (lambda x: x.guid if isinstance(x, Person) else hash(x)) if fln in ("obj_cb", "obj_sub") else hash
    if fln == "dict_cb":
        idf = lambda x: x["guid"] if isinstance(x, dict) else hash(x)  # noqa: E731
    return tree, idf


def run(case, rec):
    tree, idf = make_tree(case)
    rec.cls("flavour=" + case.get("flavour", "str") + ("/typed" if case.get("typed") else ""))
    check_queries(tree, rec, idf, rebuild=lambda: make_tree(case)[0])


def check_queries(tree, rec, idf=hash, rebuild=None, nt=True):
    # the documented name of a node is str(data); a custom node class may define another one
    shouting = any(type(n) is ShoutingNode for n in tree)
    namef = (lambda n: f"{n.data}".upper() + "!") if shouting else (lambda n: f"{n.data}")
    w = walk(tree)
    pre = w.pre
    ev = 0
    interesting = False

    def pre_of(start, add_self):
        if start is None:
            return list(pre)
        out = [start] if add_self else []

        def r(n):
            for c in w.kids[id(n)]:
                out.append(c)
                r(c)

        r(start)
        return out

    def expect_list(name, res, exp, detail):
        nonlocal ev
        ev += 1
        if res[0] == "exc":
            rec.fail(name + ":raises", detail + [repr(res[1])])
        elif not isinstance(res[1], list) or not same_list(res[1], exp):
            rec.fail(name, detail + [{"got": nm(res[1]), "exp": nm(exp)}])

    def expect_is(name, res, exp, detail):
        nonlocal ev
        ev += 1
        if res[0] == "exc":
            rec.fail(name + ":raises", detail + [repr(res[1])])
        elif res[1] is not exp:
            rec.fail(name, detail + [{"got": nm(res[1]), "exp": nm(exp)}])

    def expect_subset(name, res, group, k, detail):
        """limit on a data/data_id lookup: k distinct members of the group."""
        nonlocal ev
        ev += 1
        if res[0] == "exc":
            rec.fail(name + ":raises", detail + [repr(res[1])])
            return
        got = res[1]
        gids = {id(x) for x in group}
        want = len(group) if not k else min(k, len(group))
        ok = isinstance(got, list) and len({id(x) for x in got}) == len(got) and all(id(x) in gids for x in got) and len(got) == want
        if not ok:
            rec.fail(name, detail + [{"got": nm(got), "group": nm(group), "k": k}])

    starts = [(None, False)] + [(n, a) for n in pre for a in (False, True)]
    # ---- 1. pattern / predicate searches ---------------------------------------------
    for start, add_self in starts:
        branch = pre_of(start, add_self)
        sname = "tree" if start is None else "node"
        for pat in PATTERNS:
            if isinstance(pat, list):
                rx = re.compile(pat[0], pat[1])
                arg = (pat[0], pat[1])
            else:
                rx = re.compile(pat)
                arg = pat
            exp = [n for n in branch if rx.fullmatch(namef(n))]
            d = [sname, nm(start), add_self, pat]
            for k in LIMITS:
                if k is not None and len(exp) > k:
                    interesting = True
                e2 = exp if k is None else exp[:k]
                if start is None:
                    r = call(tree.find_all, match=arg, max_results=k)
                else:
                    r = call(start.find_all, match=arg, add_self=add_self, max_results=k)
                expect_list(f"{sname}.find_all(match=pattern,k)" if k else f"{sname}.find_all(match=pattern)", r, e2, d + [k])
            if start is None:
                expect_is("tree.find_first(match=pattern)", call(tree.find_first, match=arg), exp[0] if exp else None, d)
                expect_is("tree.find(match=pattern)", call(tree.find, match=arg), exp[0] if exp else None, d)
            elif not add_self:
                expect_is("node.find_first(match=pattern)", call(start.find_first, match=arg), exp[0] if exp else None, d)
                expect_is("node.find(match=pattern)", call(start.find, match=arg), exp[0] if exp else None, d)
        for pi, names in enumerate(PREDS):
            nameset = set(names)
            # "a callback": any callable - a lambda, a functools.partial object, an instance with __call__
            if (pi + len(pre)) % 3 == 1:
                pred = functools.partial(_name_in, nameset)
            elif (pi + len(pre)) % 3 == 2:
                pred = _NameIn(nameset)
            else:
                pred = lambda n: f"{n.data}" in nameset  # noqa: E731
            exp = [n for n in branch if f"{n.data}" in nameset]
            d = [sname, nm(start), add_self, "pred", names]
            for k in LIMITS:
                e2 = exp if k is None else exp[:k]
                if start is None:
                    r = call(tree.find_all, match=pred, max_results=k)
                else:
                    r = call(start.find_all, match=pred, add_self=add_self, max_results=k)
                expect_list(f"{sname}.find_all(match=callable)", r, e2, d + [k])
            if start is None:
                expect_is("tree.find_first(match=callable)", call(tree.find_first, match=pred), exp[0] if exp else None, d)
            elif not add_self:
                expect_is("node.find_first(match=callable)", call(start.find_first, match=pred), exp[0] if exp else None, d)
        if rec.failed:
            break

    # ---- 2. data / data_id lookups with limits ---------------------------------------------
    ids_present = []
    for n in pre:
        if n.data_id not in ids_present:
            ids_present.append(n.data_id)
    datas = []
    for n in pre:
        if not any(n.data is x or (type(n.data) is type(x) and n.data == x) for x in datas):
            datas.append(n.data)
    for did in ids_present + ["absent-id", 424242]:
        group = [n for n in pre if n.data_id == did]
        if len(group) > 1:
            interesting = True
        for k in LIMITS:
            expect_subset("tree.find_all(data_id,k)" if k else "tree.find_all(data_id)", call(tree.find_all, data_id=did, max_results=k), group, k, [repr(did), k])
        r = call(tree.find_first, data_id=did)
        ev += 1
        if r[0] == "exc" or (r[1] is None) != (not group) or (r[1] is not None and not any(r[1] is g for g in group)):
            rec.fail("tree.find_first(data_id)", [repr(did), nm(r[1]) if r[0] == "ok" else repr(r[1]), nm(group)])
        for start, add_self in starts[1:]:
            bgroup = [n for n in pre_of(start, add_self) if n.data_id == did]
            for k in (None, 1, 2):
                expect_subset("node.find_all(data_id,k)" if k else "node.find_all(data_id)", call(start.find_all, data_id=did, add_self=add_self, max_results=k), bgroup, k, [nm(start), add_self, repr(did), k])
            if not add_self:
                r = call(start.find_first, data_id=did)
                ev += 1
                if r[0] == "exc" or (r[1] is None) != (not bgroup) or (r[1] is not None and not any(r[1] is g for g in bgroup)):
                    rec.fail("node.find_first(data_id)", [nm(start), repr(did), nm(r[1]) if r[0] == "ok" else repr(r[1])])
    for data in datas + ["absent-data", 31337]:
        did = idf(data)
        group = [n for n in pre if n.data_id == did]
        for k in LIMITS:
            expect_subset("tree.find_all(data,k)" if k else "tree.find_all(data)", call(tree.find_all, data, max_results=k), group, k, [repr(data), k])
        r = call(tree.find_first, data)
        ev += 1
        if r[0] == "exc" or (r[1] is None) != (not group) or (r[1] is not None and not any(r[1] is g for g in group)):
            rec.fail("tree.find_first(data)", [repr(data), nm(r[1]) if r[0] == "ok" else repr(r[1]), nm(group)])
        r = call(lambda: data in tree)
        ev += 1
        if r[0] == "exc" or r[1] is not bool(group):
            rec.fail("data in tree", [repr(data), repr(r[1]), nm(group)])
        for start, add_self in starts[1:]:
            bgroup = [n for n in pre_of(start, add_self) if n.data_id == did]
            for k in (None, 1, 2):
                expect_subset("node.find_all(data,k)" if k else "node.find_all(data)", call(start.find_all, data, add_self=add_self, max_results=k), bgroup, k, [nm(start), add_self, repr(data), k])

    # ---- 3. index access ---------------------------------------------------------------------
    keys = []
    for n in pre:
        for key in (n.data, n.data_id, n.node_id):
            if not any(type(key) is type(x) and key == x for x in keys):
                keys.append(key)
    keys += ["absent-key", 99999, 1001, 1002]
    # integers that are not plain ints (an int subclass / IntEnum-like key, a bool): still node_id first
    keys += [_Key(k) for k in list(keys) if type(k) is int and -10**6 < k < 10**6][:6] + [True, False]

    def ref_getitem(key):
        if isinstance(key, int):
            for n in pre:
                if n.node_id == key:
                    return ("node", n)
        res = []
        if isinstance(key, (int, str)):
            res = [n for n in pre if n.data_id == key]
        if not res:
            res = [n for n in pre if n.data_id == idf(key)]
        if not res:
            return ("KeyError", None)
        if len(res) > 1:
            return ("Ambiguous", None)
        return ("node", res[0])

    for key in keys:
        kind, exp = ref_getitem(key)
        r = call(tree.__getitem__, key)
        ev += 1
        if kind == "node":
            if r[0] == "exc" or r[1] is not exp:
                rec.fail("tree[key]", [repr(key), nm(r[1]) if r[0] == "ok" else repr(r[1]), nm(exp)])
        elif kind == "KeyError":
            if r[0] != "exc" or not isinstance(r[1], KeyError):
                rec.fail("tree[key]:expected-KeyError", [repr(key), nm(r[1]) if r[0] == "ok" else repr(r[1])])
        else:
            interesting = True
            if r[0] != "exc" or not isinstance(r[1], AmbiguousMatchError):
                rec.fail("tree[key]:expected-AmbiguousMatchError", [repr(key), nm(r[1]) if r[0] == "ok" else repr(r[1])])
    if pre:
        r = call(tree.__getitem__, pre[0])
        ev += 1
        if r[0] != "exc" or not isinstance(r[1], ValueError):
            rec.fail("tree[node]:expected-ValueError", [nm(r[1]) if r[0] == "ok" else repr(r[1])])
        assert isinstance(pre[0], Node)
        if rebuild is not None:
            # a node of ANOTHER tree (here: of a second tree holding the same data) is a node key just the same
            other = rebuild()
            foreign = next(iter(other), None)
            if foreign is not None:
                r = call(tree.__getitem__, foreign)
                ev += 1
                if r[0] != "exc" or not isinstance(r[1], ValueError):
                    rec.fail("tree[node of another tree]:expected-ValueError", [nm(r[1]) if r[0] == "ok" else repr(r[1])])

    # ---- 4. del tree[key] (on fresh trees) ------------------------------------------------------
    if not rec.failed and rebuild is not None:
        default_nids = {id(n) for n in pre if n.node_id == id(n)}
        for key in [k for k in keys if not (isinstance(k, int) and k in default_nids)][:10]:
            kind, exp = ref_getitem(key)
            t2 = rebuild()
            w2 = walk(t2)
            before = shape(t2)
            ev += 1
            try:
                del t2[key]
                outcome = "ok"
            except Exception as e:  # noqa: BLE001
                outcome = e
            if kind == "node":
                # expected: exactly that node (paired by pre-order position) and its branch are gone
                pos = [i for i, n in enumerate(pre) if n is exp][0]
                victim = w2.pre[pos]

                def without(nodes_):
                    return [[n.data, without(w2.kids[id(n)])] for n in nodes_ if n is not victim]

                exp_shape = without(w2.kids[id(None)])
                if outcome != "ok":
                    rec.fail("del tree[key]:raises", [repr(key), repr(outcome)])
                elif shape(t2) != exp_shape or t2.count != sum(1 for _ in iter_shape(exp_shape)):
                    rec.fail("del tree[key]", [repr(key), shape(t2), exp_shape])
            else:
                want = KeyError if kind == "KeyError" else AmbiguousMatchError
                if not isinstance(outcome, want):
                    rec.fail(f"del tree[key]:expected-{want.__name__}", [repr(key), repr(outcome)])
                elif shape(t2) != before:
                    rec.fail("del tree[key]:refused-but-changed", [repr(key)])

    if nt:
        rec.nt(interesting)
    rec.cls("nodes=%d" % min(len(pre), 12))
    rec.evals += ev
    return interesting


def iter_shape(sh):
    for n in sh:
        yield n
        yield from iter_shape(n[1])


@st.composite
def hyp_cases(draw, tier):
    opts = gen.node_opts(explicit_ids=True)
    spec = draw(gen.forest_specs(max_nodes=12, max_depth=4, max_width=4, min_nodes=0, opts=opts, alphabet=LABELS, big=(8, 41)))
    if gen.spec_nodes(spec) and draw(st.sampled_from([0, 1])):
        # a key that is the explicit data_id of one node AND the plain data of another
        flat0 = []

        def collect0(nodes_):
            for n in nodes_:
                flat0.append(n)
                collect0(n[1])

        collect0(spec)
        n = flat0[draw(st.integers(0, len(flat0) - 1))]
        other = draw(st.sampled_from(["a", "b", "c", "a1", 3, 7]))
        if other != n[0]:
            del n[2:]
            n.append({"id": other})
    gen.fix_sibling_ids(spec, auto=lambda label: ("x", label))
    # explicit node ids: distinct ints from a pool that overlaps explicit int data_ids
    flat = []

    def collect(nodes_):
        for n in nodes_:
            flat.append(n)
            collect(n[1])

    collect(spec)
    pool = draw(st.permutations([1000, 1001, 1002, 1003, 3, 7, 55, 56]))
    k = draw(st.integers(0, min(3, len(flat))))
    idxs = draw(st.lists(st.integers(0, len(flat) - 1), min_size=k, max_size=k, unique=True)) if flat else []
    for j, i in enumerate(idxs):
        n = flat[i]
        o = dict(n[2]) if len(n) > 2 and n[2] else {}
        o["nid"] = pool[j]
        del n[2:]
        n.append(o)
    return {"spec": spec}


@st.composite
def flavour_cases(draw, tier):
    """Trees whose data_id comes from a calc_data_id callback / a Tree subclass (objects as data), plain and typed."""
    typed = draw(st.booleans())
    spec = draw(gen.forest_specs(max_nodes=10, max_depth=4, max_width=4, min_nodes=1, alphabet=["a", "b", "c", "a1", "ab"],
                                 opts=gen.node_opts(explicit_ids=True, kinds=typed), big=(10, 41)))
    gen.fix_sibling_ids(spec, auto=lambda label: ("x", label))
    flavour = draw(st.sampled_from(["obj_cb", "obj_sub", "dc", "str", "factory", "dict_cb"]))
    return {"spec": spec, "typed": typed and flavour != "factory", "flavour": flavour}


def run_requery(case, rec):
    """Search, mutate (clones appear / disappear, nodes are re-keyed and moved), search the same tree again."""
    from vlib import requery

    seen = []

    def check(tree, rec, eng):
        seen.append(check_queries(tree, rec, hash, rebuild=None, nt=False))

    q = requery.run(case, rec, check)
    rec.nt(bool(q and q >= 2 and any(seen)))


def requery_cases(tier):
    from vlib import requery

    return requery.cases(max_ops=6, max_nodes=8, kinds=["add_node", "add_node", "add", "remove", "set_data", "rename", "move", "del", "copy_to"], big=(20, 41))


# (what round 8 added to the case domain; part of the evidence text)
RULE_ROUND8 = ' One generated forest in 20 (60 in the thorough tier) is a BIG one (gen.big_specs: a child list of 11..300 nodes, that many clones of one data object, more than 256 nodes), with node references aimed at notable positions of the long child lists. (width <= 41). Index access also with int-subclass keys and bools.'
RULE = RULE + RULE_ROUND8

RULE_ROUND9 = ' Predicates are lambdas, functools.partial objects and instances with __call__; index access with a node of ANOTHER tree holding the same data must raise ValueError.'
RULE = RULE + RULE_ROUND9

PARTS = [
    Part("queries", run, strategy=lambda tier: hyp_cases(tier), n={"quick": 500, "thorough": 100000}),
    Part("callback-ids-typed", run, strategy=lambda tier: flavour_cases(tier), n={"quick": 200, "thorough": 20000}),
    Part("query-mutate-query", run_requery, strategy=requery_cases, n={"quick": 200, "thorough": 20000}),
]
