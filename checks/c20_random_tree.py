"""C20 - build_random_tree conforms to its structure definition (DESIGN section 3, C20)."""

from __future__ import annotations

import random
from datetime import date, datetime, timedelta, timezone

from hypothesis import strategies as st

from vlib.core import Part, nested_part
from vlib.observe import walk

from nutree import Tree, TypedTree
from nutree.common import DictWrapper
from nutree import tree_generator as tg

ID = "C20"
LEVEL = "exploration"
TECHNIQUE = 'property-based testing with a validity predicate over generated structure definitions and seeds'
LEVEL_TEXT = 'exploration: generated structure definitions (relation graphs, counts, every Randomizer class, templates, factories, callbacks) x seeds x Tree/TypedTree, built twice from the same definition object'
RULE = (
    "case = (structure definition as JSON: 1-5 type names, acyclic relation graph from __root__ in which a child type "
    "may occur under several parents, fixed counts 0-3 or RangeRandomizer counts, `types` defaults incl. '*', "
    "relation specs overriding them, {idx}/{hier_idx} templates, every Randomizer class, probabilities in "
    "{0, 0.25, 0.5, 1.0}, optional :factory / :callback; integer seed; Tree or TypedTree or a user subclass of either; a quarter of the relation graphs are recursive (a type that may contain itself); in two cases of five after an earlier build of another definition that failed three levels down (unknown macro name / raising callback); built twice from the same "
    "definition object). Oracle: validity predicate over the result (class, name, child types allowed by the "
    "relations, per-relation counts, merged attributes with expanded templates, randomized values inside declared "
    "ranges, skipped attributes absent, probability-1 attributes present, kind == type name). Non-trivial: >= 2 "
    "levels and a randomized count; distinct = distinct (definition, seed, class)."
)
ASSUMPTIONS = [
    "the type of a node of a plain Tree is observed through a marker attribute that the generated definition assigns per type (in `types` or in the relation spec)",
    "RangeRandomizer(lo, hi) counts/values are accepted anywhere in [lo, hi]",
    "DateRangeRandomizer stamps are accepted in [min, max + 1 day] (the implementation adds one day)",
    "fabulist is importable for Text/BlindText randomizers",
]


class Obj:
    """custom :factory"""

    def __init__(self, **kw):
        self.kw = kw


_CB_SERIAL = [0]


def _cb(data):
    # the callback is the same object for every node; it numbers its calls and leaves an extra attribute on every
    # second node only: what it does for one node must not show on another
    _CB_SERIAL[0] += 1
    data["_cb"] = True
    data["_cb_n"] = _CB_SERIAL[0]
    if _CB_SERIAL[0] % 2:
        data["_cb_odd"] = _CB_SERIAL[0]


def mk_attr(spec):
    k = spec[0]
    if k == "const":
        return spec[1]
    if k == "none":
        return None
    if k == "range":
        lo, hi, prob = spec[1], spec[2], spec[3]
        kw = {"probability": prob}
        if len(spec) > 4 and spec[4] is not None:
            kw["none_value"] = spec[4]
        return tg.RangeRandomizer(lo, hi, **kw)
    if k == "date":
        mn = date(*spec[1])
        mx = spec[2] if isinstance(spec[2], int) else date(*spec[2])
        return tg.DateRangeRandomizer(mn, mx, as_js_stamp=spec[3], probability=spec[4])
    if k == "value":
        return tg.ValueRandomizer(spec[1], probability=spec[2])
    if k == "sparse":
        return tg.SparseBoolRandomizer(probability=spec[1])
    if k == "sample":
        items = spec[1]
        if spec[2] is None and len(items) % 2 == 0:
            items = tuple(items)  # "sample_list: Sequence": a tuple is one
        return tg.SampleRandomizer(items, counts=spec[2], probability=spec[3])
    if k == "text":
        return tg.TextRandomizer(spec[1], probability=spec[2])
    if k == "blind":
        return tg.BlindTextRandomizer(probability=spec[1])
    raise AssertionError(spec)


def mk_specdict(js):
    out = {}
    for key, val in js.items():
        if key == ":count":
            out[key] = val if isinstance(val, int) else tg.RangeRandomizer(val[1], val[2], probability=val[3])
        elif key == ":factory":
            out[key] = Obj if val == "Obj" else DictWrapper
        elif key == ":callback":
            out[key] = _cb
        else:
            out[key] = mk_attr(val)
    return out


def mk_structure(case):
    sd = {}
    if case.get("name") is not None:
        sd["name"] = case["name"]
    if case.get("types") is not None:
        sd["types"] = {t: mk_specdict(s) for t, s in case["types"].items()}
    sd["relations"] = {p: {c: mk_specdict(s) for c, s in rel.items()} for p, rel in case["relations"].items()}
    return sd


def attrs_of(node):
    d = node.data
    if isinstance(d, DictWrapper):
        return d._dict, "DictWrapper"
    if isinstance(d, Obj):
        return d.kw, "Obj"
    return None, type(d).__name__


def check_value(rec, where, key, spec, present, val, idx, hier):
    """spec is the JSON attr spec; returns nothing, records failures."""
    k = spec[0]
    macros = {"idx": idx, "hier_idx": hier}

    def must_be_present(prob_one):
        if not present and prob_one:
            rec.fail(f"attr:{k}:missing-although-probability-1", [where, key, spec])
        return present

    # probability 0: the value is never generated (a range with none_value then yields that value)
    prob_at = {"range": 3, "date": 4, "value": 2, "sparse": 1, "sample": 3, "text": 2, "blind": 1}.get(k)
    if prob_at is not None and spec[prob_at] == 0.0:
        none_value = spec[4] if k == "range" and len(spec) > 4 else None
        if none_value is not None:
            if not present or val != none_value:
                rec.fail("attr:probability-0:none_value-expected", [where, key, repr(val), spec])
        elif present:
            rec.fail(f"attr:{k}:present-although-probability-0", [where, key, repr(val), spec])
        return
    if k == "none":
        # a static attribute whose value is None is an attribute like any other
        if not present or val is not None:
            rec.fail("attr:static-None:missing-or-changed", [where, key, present, repr(val)])
        return
    if k == "const":
        if not present:
            rec.fail("attr:const:missing", [where, key])
            return
        exp = spec[1].format(**macros) if isinstance(spec[1], str) else spec[1]
        if val != exp or type(val) is not type(exp):
            rec.fail("attr:const:value" if not isinstance(spec[1], str) or "{" not in spec[1] else "attr:template", [where, key, repr(val), repr(exp)])
    elif k == "range":
        lo, hi, prob = spec[1], spec[2], spec[3]
        none_value = spec[4] if len(spec) > 4 else None
        if not must_be_present(prob == 1.0 or none_value is not None):
            return
        if none_value is not None and val == none_value and prob < 1.0:
            return
        if type(val) is not type(lo) or not (lo <= val <= hi):
            rec.fail("attr:range:out-of-range", [where, key, repr(val), spec])
    elif k == "date":
        mn = date(*spec[1])
        mx = mn + timedelta(days=spec[2]) if isinstance(spec[2], int) else date(*spec[2])
        if not must_be_present(spec[4] == 1.0):
            return
        if spec[3]:
            def ts(d):
                return datetime(d.year, d.month, d.day, tzinfo=timezone.utc).timestamp() * 1000.0

            if not isinstance(val, float) or not (ts(mn) <= val <= ts(mx + timedelta(days=1))):
                rec.fail("attr:date:stamp-out-of-range", [where, key, repr(val), spec])
        else:
            if not isinstance(val, date) or not (mn <= val <= mx):
                rec.fail("attr:date:out-of-range", [where, key, repr(val), spec])
    elif k == "value":
        if not must_be_present(spec[2] == 1.0):
            return
        exp = spec[1].format(**macros) if isinstance(spec[1], str) else spec[1]
        if val != exp:
            rec.fail("attr:value", [where, key, repr(val), repr(exp)])
    elif k == "sparse":
        if not must_be_present(spec[1] == 1.0):
            return
        if val is not True:
            rec.fail("attr:sparse", [where, key, repr(val)])
    elif k == "sample":
        if not must_be_present(spec[3] == 1.0):
            return
        allowed = [s.format(**macros) if isinstance(s, str) else s for s in spec[1]]
        if spec[2]:
            allowed = [a for a, c in zip(allowed, spec[2]) if c > 0]
        if not any(val == a and type(val) is type(a) for a in allowed):
            rec.fail("attr:sample:not-in-sample", [where, key, repr(val), allowed])
    elif k in ("text", "blind"):
        prob = spec[2] if k == "text" else spec[1]
        if not must_be_present(prob == 1.0):
            return
        if not isinstance(val, str) or not val:
            rec.fail("attr:text", [where, key, repr(val)])


class MyRandomTree(Tree):
    """user-defined subclass: build_random_tree is a classmethod and returns an instance of the class it is called on"""


class MyRandomTypedTree(TypedTree):
    pass


def tree_class(case):
    if case.get("subclass"):
        return MyRandomTypedTree if case["typed"] else MyRandomTree
    return TypedTree if case["typed"] else Tree


def validate(rec, case, tree, which):
    typed = case["typed"]
    cls = tree_class(case)
    if type(tree) is not cls:
        rec.fail("class", [which, type(tree).__name__])
        return
    if case.get("name") is not None and tree.name != case["name"]:
        rec.fail("name", [which, tree.name])
    w = walk(tree)
    types = case.get("types") or {}
    relations = case["relations"]

    def merged(ntype, relspec):
        m = dict(types.get("*", {}))
        m.update(types.get(ntype, {}))
        m.update(relspec)
        return m

    def node_type(n):
        if typed:
            return n.kind
        attrs, _ = attrs_of(n)
        return None if attrs is None else attrs.get("_t")

    def rec_children(children, ptype, prefix, pwhere):
        rel = relations.get(ptype)
        if rel is None:
            if children:
                rec.fail("children-below-type-without-relations", [which, pwhere, ptype])
            return
        groups = {}
        for c in children:
            t = node_type(c)
            if t not in rel:
                rec.fail("child-type-not-allowed", [which, pwhere, ptype, t])
                return
            groups.setdefault(t, []).append(c)
        for ctype, relspec in rel.items():
            m = merged(ctype, relspec)
            grp = groups.get(ctype, [])
            cnt = m.get(":count", 1)
            if isinstance(cnt, int):
                if len(grp) != cnt:
                    rec.fail("count:fixed", [which, pwhere, ctype, len(grp), cnt])
                    return
            else:
                _, lo, hi, prob = cnt
                ok = lo <= len(grp) <= hi or (prob < 1.0 and len(grp) == 0)
                if prob == 0.0:
                    ok = len(grp) == 0  # never generated
                if not ok:
                    rec.fail("count:range", [which, pwhere, ctype, len(grp), cnt])
                    return
            want_factory = m.get(":factory", "DictWrapper")
            for i, c in enumerate(grp, 1):
                hier = f"{prefix}.{i}" if prefix else f"{i}"
                where = f"{pwhere}/{ctype}[{i}]"
                attrs, fname = attrs_of(c)
                if fname != want_factory or attrs is None:
                    rec.fail("factory", [which, where, fname, want_factory])
                    return
                if typed and c.kind != ctype:
                    rec.fail("kind", [which, where, c.kind])
                exp_keys = {k_ for k_ in m if not k_.startswith(":")}
                if ":callback" in m:
                    exp_keys.update(["_cb", "_cb_n"])
                    if attrs.get("_cb") is not True:
                        rec.fail("callback-not-applied", [which, where])
                    n_call = attrs.get("_cb_n")
                    if isinstance(n_call, int) and n_call % 2:
                        exp_keys.add("_cb_odd")
                    if ("_cb_odd" in attrs) != (isinstance(n_call, int) and n_call % 2 == 1) or attrs.get("_cb_odd", n_call) != n_call:
                        rec.fail("callback:effect-of-another-node's-call", [which, where, n_call, attrs.get("_cb_odd")])
                extra = set(attrs) - exp_keys
                if extra:
                    rec.fail("attr:unexpected", [which, where, sorted(extra)])
                for key, aspec in m.items():
                    if key.startswith(":"):
                        continue
                    present = key in attrs
                    val = attrs.get(key)
                    if present and val is None and aspec[0] != "none":
                        rec.fail("attr:None-valued", [which, where, key])
                        continue
                    check_value(rec, f"{which}:{where}", key, aspec, present, val, i, hier)
                rec_children(w.kids[id(c)], ctype, hier, where)

    rec_children(w.kids[id(None)], "__root__", "", "")
    return w


def run(case, rec):
    sd = mk_structure(case)
    cls = tree_class(case)
    if case.get("subclass"):
        rec.cls("user-subclass")
    if any(p in rel for p, rel in case["relations"].items()):
        rec.cls("recursive-relation")
    state = random.getstate()
    try:
        random.seed(case["seed"])
        if case.get("failed_first"):
            # an earlier build (same class, another definition) that fails while a node three levels down is being
            # generated - an unknown macro name / a raising callback; the caller catches it and goes on
            def boom(data):
                raise ZeroDivisionError("callback of the failing definition")

            last = {":count": 1, "title": "{no_such_macro}"} if case["failed_first"] == 1 else {":count": 1, "title": "x", ":callback": boom}
            bad = {"relations": {"__root__": {"fa": {":count": 2, "title": "A{hier_idx}"}}, "fa": {"fb": {":count": 2, "title": "B{hier_idx}"}},
                                 "fb": {"fc": last}}}
            try:
                cls.build_random_tree(bad)
                rec.cls("failing-definition-did-not-fail")
            except Exception:  # noqa: BLE001
                rec.cls("after-a-failed-build")
        t1 = cls.build_random_tree(sd)
        w = validate(rec, case, t1, "build1")
        rec.evals += 1
        if case.get("twice") and not rec.failed:
            t2 = cls.build_random_tree(sd)  # same definition object again
            validate(rec, case, t2, "build2")
            rec.evals += 1
    finally:
        random.setstate(state)
    levels = max([w.depth[id(n)] for n in w.pre], default=0) if w else 0
    rnd_count = any(not isinstance(s.get(":count", 1), int) for rel in case["relations"].values() for s in rel.values())
    rec.nt(levels >= 2 and rnd_count)
    rec.cls("typed" if case["typed"] else "plain")
    rec.cls(f"levels={levels}")
    for rel in case["relations"].values():
        for s in rel.values():
            for k_, v in s.items():
                if not k_.startswith(":"):
                    rec.cls(f"attr={v[0]}")


# ---------------------------------------------------------------------------------
PROBS = [0.25, 0.5, 1.0, 1.0, 0.0]


@st.composite
def attr_spec(draw):
    k = draw(st.sampled_from(["const", "const", "template", "range", "rangef", "date", "value", "sparse", "sample", "text", "blind", "none"]))
    if k == "none":
        return ["none"]
    p = draw(st.sampled_from(PROBS))
    if k == "const":
        return ["const", draw(st.one_of(st.integers(-3, 3), st.booleans(), st.sampled_from(["s", "t u", ""]), st.floats(0, 1, allow_nan=False)))]
    if k == "template":
        # ({idx} is a number: it takes a number's format spec)
        return ["const", draw(st.sampled_from(["n{idx}", "{hier_idx}", "{idx}/{hier_idx}", "x {hier_idx}: y", "F-{idx:03}", "[{idx:>4}]", "{idx:02d}.{hier_idx:>8}"]))]
    if k == "range":
        lo = draw(st.integers(-3, 3))
        nv = draw(st.sampled_from([None, None, -99]))
        return ["range", lo, lo + draw(st.integers(1, 4)), p, nv]
    if k == "rangef":
        lo = draw(st.sampled_from([0.0, -1.5, 2.0]))
        return ["range", lo, lo + draw(st.sampled_from([0.5, 3.0])), p, None]
    if k == "date":
        mn = [2020 + draw(st.integers(0, 3)), draw(st.integers(1, 12)), draw(st.integers(1, 28))]
        if draw(st.booleans()):
            mx = draw(st.integers(1, 400))
        else:
            mx = [mn[0] + 1, draw(st.integers(1, 12)), draw(st.integers(1, 28))]
        return ["date", mn, mx, draw(st.booleans()), p]
    if k == "value":
        return ["value", draw(st.sampled_from([1, 0, "v", "v{idx}", False, 2.5, "v{idx:03}"])), p]
    if k == "sparse":
        return ["sparse", p]
    if k == "sample":
        items = draw(st.lists(st.sampled_from([0, 1, 2, "a", "b{idx}", True, False, 1.5]), min_size=1, max_size=4, unique_by=lambda x: (type(x).__name__, x)))
        counts = None
        if draw(st.booleans()):
            counts = [draw(st.integers(0, 3)) for _ in items]
            if sum(counts) == 0:
                counts[0] = 1
        return ["sample", items, counts, p]
    if k == "text":
        return ["text", draw(st.sampled_from(["$(Noun)", "{idx}: $(noun:plural)", "$(Verb) $(adj) $(noun)"])), p]
    return ["blind", p]


@st.composite
def spec_dict(draw, with_count, max_attrs=3):
    d = {}
    if with_count:
        c = draw(st.sampled_from(["default", "fixed", "fixed", "range", "range"]))
        if c == "fixed":
            d[":count"] = draw(st.sampled_from([0, 1, 1, 2, 2, 3]))
        elif c == "range":
            lo = draw(st.integers(0, 2))
            d[":count"] = ["range", lo, lo + draw(st.integers(1, 3)), draw(st.sampled_from(PROBS))]
    for _ in range(draw(st.integers(0, max_attrs))):
        d[draw(st.sampled_from(["a", "b", "c", "d", "e", "kind"]))] = draw(attr_spec())  # ("kind" is an ordinary attribute name)
    if draw(st.sampled_from([0, 0, 0, 1])):
        d[":factory"] = draw(st.sampled_from(["Obj", "DictWrapper"]))
    if draw(st.sampled_from([0, 0, 0, 0, 1])):
        d[":callback"] = True
    return d


@st.composite
def hyp_cases(draw, tier):
    nt = draw(st.integers(1, 5))
    tnames = [f"T{i}" for i in range(1, nt + 1)]
    typed = draw(st.booleans())
    marker_in_types = draw(st.booleans())
    relations = {}
    # __root__ and every type may have children of *later* types only (acyclic)
    order = ["__root__"] + tnames
    for i, p in enumerate(order):
        later = order[i + 1 :]
        if not later:
            continue
        if p == "__root__":
            kids = draw(st.lists(st.sampled_from(later), min_size=1, max_size=min(3, len(later)), unique=True))
        else:
            kids = draw(st.lists(st.sampled_from(later), min_size=1 if i == 1 else 0, max_size=min(2, len(later)), unique=True))
        if kids or p == "__root__":
            relations[p] = {}
            for c in kids:
                s = draw(spec_dict(with_count=True))
                if not typed and not marker_in_types:
                    s["_t"] = ["const", c]
                relations[p][c] = s
    if draw(st.sampled_from([0, 0, 0, 1])):
        # a recursive relation (a type that may contain itself, e.g. folder -> folder): count 0..2 with probability
        # 0.5, so the expected number of nested instances per node is below one and the recursion ends
        cands = [t for t in tnames if t in relations]
        if cands:
            p = draw(st.sampled_from(cands))
            s = draw(spec_dict(with_count=False))
            s[":count"] = ["range", 0, draw(st.sampled_from([1, 2])), 0.5]
            if not typed and not marker_in_types:
                s["_t"] = ["const", p]
            relations[p] = dict([(p, s)] + list(relations[p].items())) if draw(st.booleans()) else dict(list(relations[p].items()) + [(p, s)])
    if draw(st.sampled_from([0] * 7 + [1])):
        # MANY siblings of the last type (it has no children of its own): 32..70 instances below each parent
        last = tnames[-1]
        hosts = [p for p, rel in relations.items() if last in rel]
        if hosts:
            p = draw(st.sampled_from(hosts))
            n_big = draw(st.sampled_from([32, 33, 40, 64, 65, 70]))
            relations[p][last][":count"] = n_big if draw(st.booleans()) else ["range", n_big, n_big + 3, 1.0]
    types = None
    if marker_in_types or draw(st.booleans()):
        types = {}
        star = draw(spec_dict(with_count=draw(st.sampled_from([False, False, True])), max_attrs=2)) if draw(st.booleans()) else None
        star_last = draw(st.booleans())  # the order of the entries of a dict carries no meaning
        if star is not None and not star_last:
            types["*"] = star
        for t in tnames:
            if (not typed and marker_in_types) or draw(st.booleans()):
                s = draw(spec_dict(with_count=False, max_attrs=2))
                if not typed and marker_in_types:
                    s["_t"] = ["const", t]
                types[t] = s
        if star is not None and star_last:
            types["*"] = star
    return {
        "name": draw(st.sampled_from([None, "fmea", "r t"])),
        "typed": typed,
        "seed": draw(st.integers(0, 10**6)),
        "types": types,
        "relations": relations,
        "twice": draw(st.booleans()),
        "failed_first": draw(st.sampled_from([0, 0, 0, 1, 2])),
        "subclass": draw(st.sampled_from([False, False, True])),
    }


# (what round 8 added to the case domain; part of the evidence text)
RULE_ROUND8 = " Templates with a number format spec on {idx} ('F-{idx:03}', '[{idx:>4}]', '{idx:02d}.{hier_idx:>8}'); one case in eight gives the last type 32..70 siblings per parent. Parts tz-west-of-utc / tz-east-of-utc: the whole part once more in child interpreters with TZ=America/Los_Angeles and TZ=Pacific/Kiritimati."
RULE = RULE + RULE_ROUND8

RULE_ROUND9 = " The callback numbers its calls and marks every second node only (no node shows the effect of another node's call); '*' is the first or the last key of `types`; sample sequences are lists or tuples."
RULE = RULE + RULE_ROUND9

PARTS = [
    Part("structure-defs", run, strategy=lambda tier: hyp_cases(tier), n={"quick": 1500, "thorough": 150000}),
    nested_part("C20", ["structure-defs"], {"TZ": "America/Los_Angeles"}, "tz-west-of-utc", "local time is behind UTC"),
    nested_part("C20", ["structure-defs"], {"TZ": "Pacific/Kiritimati"}, "tz-east-of-utc", "local time is 14 hours ahead of UTC"),
]
