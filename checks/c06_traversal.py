"""C06 - traversal orders and control signals (DESIGN section 3, C06)."""

from __future__ import annotations

import warnings

from hypothesis import strategies as st

from vlib import enumer, gen
from vlib.build import build
from vlib.core import Part
from vlib.observe import walk

from nutree import IterMethod, SkipBranch, StopTraversal

ID = "C06"
LEVEL = "exploration"
TECHNIQUE = 'bounded-exhaustive enumeration + Hypothesis, reference traversals computed by different algorithms'
LEVEL_TEXT = 'exploration with an exhaustive part: all forests up to the bound x every start x every method x every skip/stop position x every signal form against reference orders; complete inside the bound only'
RULE = (
    "case = (forest, start); forests: every ordered forest with <= N nodes (exhaustive part) and "
    "Hypothesis-drawn deeper/wider ones; start = tree or any node. Per case ALL of: 6 ordered iterator "
    "methods x add_self, UNORDERED/RANDOM (tree), visit() x {pre,post,level} x add_self x every node as "
    "skip/stop position x every signal form, plus traversals with several skipping nodes (pairs, same level first; all inner nodes), are evaluated against reference orders computed from "
    "node.children by different algorithms. Non-trivial: branch has >= 4 nodes and depth >= 3 "
    "(zigzag/rtl/level skip differ from simpler orders); distinct = distinct (forest, start). Further parts: "
    "deep trees (650-800 levels, below the depth of about 990 that the traversal code handles with the default recursion "
    "limit) with directly written reference orders, forests over a 4-letter alphabet (clones and equal data on one level, plain and typed trees), and "
    "query-mutate-query histories: the same clauses are evaluated on ONE tree before a generated mutation history "
    "(adds, copies, moves, removals, sorting, re-keying, refused calls), after a generated subset of its steps and "
    "at its end (non-trivial there: >= 2 evaluations and >= 2 operations)."
)
ASSUMPTIONS = [
    "reference orders are computed from Tree.children/Node.children (trusted accessors)",
    "visit() is only required to support the methods it implements (pre, post, level); others must raise NotImplementedError",
    "skip in post-order is documented as unsupported: nothing asserted there",
]
EXHAUSTIVE_NOTE = {"quick": "all ordered forests with <= 6 nodes x every start", "thorough": "all ordered forests with <= 10 nodes x every start"}

ORDERED = [
    IterMethod.PRE_ORDER,
    IterMethod.POST_ORDER,
    IterMethod.LEVEL_ORDER,
    IterMethod.LEVEL_ORDER_RTL,
    IterMethod.ZIGZAG,
    IterMethod.ZIGZAG_RTL,
]
VISITABLE = [IterMethod.PRE_ORDER, IterMethod.POST_ORDER, IterMethod.LEVEL_ORDER]


# -- reference orders (recursive / explicit levels; no generators, no queues) ----
def ref_pre(kids, roots):
    out = []

    def rec(n):
        out.append(n)
        for c in kids[id(n)]:
            rec(c)

    for r in roots:
        rec(r)
    return out


def ref_post(kids, roots):
    out = []

    def rec(n):
        for c in kids[id(n)]:
            rec(c)
        out.append(n)

    for r in roots:
        rec(r)
    return out


def ref_levels(kids, roots):
    levels = []
    cur = list(roots)
    while cur:
        levels.append(cur)
        cur = [c for n in cur for c in kids[id(n)]]
    return levels


def ref_order(method, kids, roots):
    if method == IterMethod.PRE_ORDER:
        return ref_pre(kids, roots)
    if method == IterMethod.POST_ORDER:
        return ref_post(kids, roots)
    levels = ref_levels(kids, roots)
    out = []
    for i, lv in enumerate(levels):
        if method == IterMethod.LEVEL_ORDER:
            rev = False
        elif method == IterMethod.LEVEL_ORDER_RTL:
            rev = True
        elif method == IterMethod.ZIGZAG:
            rev = i % 2 == 1
        else:  # ZIGZAG_RTL
            rev = i % 2 == 0
        out.extend(reversed(lv) if rev else lv)
    return out


def with_self(method, order, start):
    if method == IterMethod.POST_ORDER:
        return order + [start]
    return [start] + order


def ids(nodes):
    return [id(n) for n in nodes]


def names(nodes):
    return [repr(n.data) for n in nodes]


class MySkip(SkipBranch):
    """application-defined control values (subclasses of the library's) count like their base classes"""


class MyStop(StopTraversal):
    pass


# signal forms: (name, kind, how, carried value)
SKIP_FORMS = [
    ("ret MySkip()", lambda: ("ret", MySkip())),
    ("raise MySkip()", lambda: ("raise", MySkip())),
    ("ret SkipBranch", lambda: ("ret", SkipBranch)),
    ("ret SkipBranch()", lambda: ("ret", SkipBranch())),
    ("ret SkipBranch(and_self=True)", lambda: ("ret", SkipBranch(and_self=True))),
    ("raise SkipBranch", lambda: ("raise", SkipBranch)),
    ("raise SkipBranch()", lambda: ("raise", SkipBranch())),
]
STOP_FORMS = [
    ("ret False", lambda: ("ret", False), None),
    ("ret MyStop(v)", lambda: ("ret", MyStop("v5")), "v5"),
    ("raise MyStop(v)", lambda: ("raise", MyStop("v6")), "v6"),
    ("ret StopTraversal", lambda: ("ret", StopTraversal), None),
    ("ret StopTraversal(v)", lambda: ("ret", StopTraversal("v1")), "v1"),
    ("raise StopTraversal", lambda: ("raise", StopTraversal), None),
    ("raise StopTraversal(v)", lambda: ("raise", StopTraversal("v2")), "v2"),
    ("raise StopTraversal(0)", lambda: ("raise", StopTraversal(0)), 0),
    ("ret StopIteration", lambda: ("ret", StopIteration), None),
    ("ret StopIteration(v)", lambda: ("ret", StopIteration("v3")), "v3"),
    ("raise StopIteration(v)", lambda: ("raise", StopIteration("v4")), "v4"),
    ("raise StopIteration", lambda: ("raise", StopIteration), None),
]


def run(case, rec):
    spec, start_i = case["spec"], case["start"]
    tree, nodes = build(spec, typed=bool(case.get("typed")))
    is_tree = start_i < 0 or not nodes
    start = None if is_tree else nodes[start_i % len(nodes)]
    if case.get("typed"):
        rec.cls("typed")
    if gen.spec_has_clone(spec):
        rec.cls("clones")
    check_at(tree, start, rec, nt=True)


def pick_start(tree, w, start_i):
    """start_i < 0: the tree itself, else the start_i-th node in (reference) pre-order."""
    if start_i < 0 or not w.pre:
        return None
    return w.pre[start_i % len(w.pre)]


def check_at(tree, start, rec, nt=False):
    """All traversal clauses for one start (None = the tree) of an existing tree."""
    w = walk(tree)
    kids = w.kids
    is_tree = start is None
    roots = kids[id(None)] if is_tree else kids[id(start)]
    branch_pre = ref_pre(kids, roots)
    depth = len(ref_levels(kids, roots))
    if nt:
        rec.nt(len(branch_pre) >= 4 and depth >= 3)
    rec.cls(f"depth={min(depth, 6)}")
    rec.cls("start=tree" if is_tree else "start=node")
    # nodes of one level that are equal (==) without being identical: clones or equal data
    for lv in ref_levels(kids, roots):
        if any(a is not b and a == b and kids[id(b)] for i, a in enumerate(lv) for b in lv[i + 1:]):
            rec.cls("equal-nodes-on-one-level(one with children)")
            break
    ev = 0

    # ---- iterators --------------------------------------------------------------
    for m in ORDERED:
        exp = ref_order(m, kids, roots)
        if is_tree:
            got = list(tree.iterator(m))
            ev += 1
            if ids(got) != ids(exp):
                rec.fail(f"iter:{m.value}", {"got": names(got), "exp": names(exp)})
            if m == IterMethod.PRE_ORDER:
                got = list(tree)
                if ids(got) != ids(exp):
                    rec.fail("iter:__iter__", {"got": names(got), "exp": names(exp)})
        else:
            for add_self in (False, True):
                got = list(start.iterator(m, add_self=add_self))
                ev += 1
                e2 = with_self(m, exp, start) if add_self else exp
                if ids(got) != ids(e2):
                    rec.fail(f"iter:{m.value}:add_self={add_self}", {"got": names(got), "exp": names(e2)})
            if m == IterMethod.PRE_ORDER:
                got = list(start)
                if ids(got) != ids(exp):
                    rec.fail("iter:__iter__", {"got": names(got), "exp": names(exp)})
    if is_tree:
        for m in (IterMethod.UNORDERED, IterMethod.RANDOM_ORDER):
            got = list(tree.iterator(m))
            ev += 1
            if sorted(ids(got)) != sorted(ids(branch_pre)):
                rec.fail(f"iter:{m.value}:not-a-permutation", {"got": names(got), "exp": names(branch_pre)})

    if rec.failed:
        return  # never drive a tree that already misbehaved any further
    # ---- the results are iterators, and several traversals of one tree may be alive at once ----------
    def make_it(m):
        return tree.iterator(m) if is_tree else start.iterator(m)

    all_methods = list(ORDERED) + ([IterMethod.UNORDERED, IterMethod.RANDOM_ORDER] if is_tree else [])
    for m in all_methods:
        it = make_it(m)
        ev += 1
        try:
            stepwise = []
            if iter(it) is not it:
                rec.fail(f"iter:{m.value}:not-an-iterator", repr(type(it)))
                break
            while True:
                try:
                    stepwise.append(next(it))
                except StopIteration:
                    break
                if len(stepwise) > len(branch_pre) + 1:
                    break
        except Exception as e:  # noqa: BLE001
            rec.fail(f"iter:{m.value}:next()-raises", repr(e)[:120])
            break
        if sorted(ids(stepwise)) != sorted(ids(branch_pre)):
            rec.fail(f"iter:{m.value}:consumed-with-next()", {"got": names(stepwise), "exp": names(branch_pre)})
            break
    if rec.failed:
        return
    if len(branch_pre) >= 2:
        k = len(branch_pre)
        pairs = [(ORDERED[i % len(ORDERED)], ORDERED[(i * 3 + 1 + k) % len(ORDERED)]) for i in range(len(ORDERED))]
        for m1, m2 in pairs:
            # two traversals consumed in lock step, and one that is abandoned after its first node
            ev += 1
            it1, it2 = make_it(m1), make_it(m2)
            got1, got2 = [], []
            for a, b in zip(it1, it2):
                got1.append(a)
                got2.append(b)
            e1, e2 = ref_order(m1, kids, roots), ref_order(m2, kids, roots)
            if ids(got1) != ids(e1) or ids(got2) != ids(e2):
                rec.fail("iter:two-traversals-in-lock-step", {"methods": [m1.value, m2.value], "got": [names(got1), names(got2)], "exp": [names(e1), names(e2)]})
                break
            dropped = make_it(m1)
            next(dropped)
            got = list(make_it(m2))
            if ids(got) != ids(e2):
                rec.fail("iter:after-an-abandoned-traversal", {"abandoned": m1.value, "then": m2.value, "got": names(got), "exp": names(e2)})
                break
            del dropped
    if rec.failed:
        return
    # ---- visit ---------------------------------------------------------------------
    def visit(m, add_self, cb, memo=None):
        with warnings.catch_warnings():
            warnings.simplefilter("ignore")
            if is_tree:
                return tree.visit(cb, method=m, memo=memo)
            return start.visit(cb, add_self=add_self, method=m, memo=memo)

    for m in ORDERED:
        if m not in VISITABLE:
            try:
                visit(m, False, lambda n, memo: None)
                # supporting it would be fine; then it must follow the iterator order
                rec.cls("visit-supports-extra-method")
            except NotImplementedError:
                rec.cls("visit-unsupported-method")
            ev += 1
            continue
        base = ref_order(m, kids, roots)
        for add_self in ((False,) if is_tree else (False, True)):
            exp = with_self(m, base, start) if add_self else base
            calls = []
            memo_seen = []

            def cb_plain(n, memo):
                calls.append(n)
                memo_seen.append(memo)

            mm = {"k": 1}
            r = visit(m, add_self, cb_plain, memo=mm)
            ev += 1
            if ids(calls) != ids(exp):
                rec.fail(f"visit:{m.value}:order", {"got": names(calls), "exp": names(exp), "add_self": add_self})
            if r is not None:
                rec.fail(f"visit:{m.value}:return-without-stop", repr(r))
            if any(x is not mm for x in memo_seen):
                rec.fail(f"visit:{m.value}:memo-not-passed")

            for pos, x in enumerate(exp):
                if rec.failed:
                    rec.evals += ev
                    return
                # --- stop at x
                for fname, mk, val in STOP_FORMS:
                    calls = []

                    def cb_stop(n, memo, x=x, mk=mk):
                        calls.append(n)
                        if n is x:
                            how, sig = mk()
                            if how == "ret":
                                return sig
                            raise sig

                    r = visit(m, add_self, cb_stop)
                    ev += 1
                    if ids(calls) != ids(exp[: pos + 1]):
                        rec.fail(
                            f"visit:{m.value}:stop:calls",
                            {"form": fname, "at": repr(x.data), "got": names(calls), "exp": names(exp[: pos + 1]), "add_self": add_self},
                        )
                    if r != val or (val is None and r is not None):
                        rec.fail(f"visit:{m.value}:stop:value", {"form": fname, "got": repr(r), "exp": repr(val)})
                # --- skip at x
                if m == IterMethod.POST_ORDER:
                    continue
                below = set(ids(ref_pre(kids, kids[id(x)]))) if x is not start else set(ids(base))
                exp_skip = [n for n in exp if id(n) not in below]
                for fname, mk in SKIP_FORMS:
                    calls = []

                    def cb_skip(n, memo, x=x, mk=mk):
                        calls.append(n)
                        if n is x:
                            how, sig = mk()
                            if how == "ret":
                                return sig
                            raise sig

                    r = visit(m, add_self, cb_skip)
                    ev += 1
                    if ids(calls) != ids(exp_skip):
                        rec.fail(
                            f"visit:{m.value}:skip",
                            {"form": fname, "at": repr(x.data), "got": names(calls), "exp": names(exp_skip), "add_self": add_self},
                        )
                    if r is not None:
                        rec.fail(f"visit:{m.value}:skip:return", repr(r))
            # --- several skips in one traversal: pairs of nodes (same level first), and every inner node at once
            if m != IterMethod.POST_ORDER and not rec.failed:
                inner = [n for n in exp if kids[id(n)] and n is not start]
                dep = {id(n): w.depth[id(n)] for n in inner}
                pairs = [(a, b) for i, a in enumerate(inner) for b in inner[i + 1:]]
                pairs.sort(key=lambda ab: dep[id(ab[0])] != dep[id(ab[1])])  # same-level pairs first
                groups = [list(ab) for ab in pairs[:6]] + ([inner] if len(inner) >= 2 else [])
                for grp in groups:
                    gids = {id(n) for n in grp}
                    hidden = set()
                    for g in grp:
                        hidden |= set(ids(ref_pre(kids, kids[id(g)])))
                    exp_multi = [n for n in exp if id(n) not in hidden]
                    calls = []

                    def cb_multi(n, memo, gids=gids):
                        calls.append(n)
                        if id(n) in gids:
                            return SkipBranch

                    visit(m, add_self, cb_multi)
                    ev += 1
                    if ids(calls) != ids(exp_multi):
                        rec.fail(f"visit:{m.value}:several-skips", {"at": [repr(g.data) for g in grp], "got": names(calls), "exp": names(exp_multi), "add_self": add_self})
                        break
    rec.evals += ev


# ---------------------------------------------------------------------------------
def _bound(tier):
    return 6 if tier == "quick" else 10


def enum_cases(tier):
    for spec in enumer.forests_upto(_bound(tier)):
        n = enumer.spec_size(spec)
        for s in range(-1, n):
            yield {"spec": spec, "start": s}


@st.composite
def hyp_cases(draw, tier):
    deep = draw(st.booleans())
    if deep:
        spec = draw(gen.forest_specs(max_nodes=14, max_depth=10, max_width=2, unique=True, min_nodes=4, big=(20, 130)))
    else:
        spec = draw(gen.forest_specs(max_nodes=16, max_depth=4, max_width=10, unique=True, min_nodes=4, big=(20, 130)))
    n = gen.spec_nodes(spec)
    return {"spec": spec, "start": draw(st.integers(-1, max(0, n - 1)))}


def run_deep(case, rec):
    """A deep tree (one inner node and `width` leaves per level), well below the depth the traversal code handles
    on the unchanged tree (about 990 levels with the default recursion limit): every ordered method, and visit()
    with one stop and one skip in the middle.  The reference orders are written down directly for this shape."""
    from nutree import Tree

    depth, width = case["depth"], case["width"]
    tree = Tree("deep")
    chain, leaves = [], []
    parent = tree
    for i in range(depth):
        c = parent.add(f"c{i}")
        lv = [parent.add(f"l{i}_{j}") for j in range(width)] if i > 0 else []
        chain.append(c)
        leaves.append(lv)  # leaves[i] = the leaf siblings of chain[i] (after it)
        parent = c
    # level k (0-based) = [chain[k]] + leaves[k]
    levels = [[chain[k]] + leaves[k] for k in range(depth)]
    pre = list(chain)
    for k in range(depth - 1, 0, -1):
        pre.extend(leaves[k])
    post = [chain[depth - 1]]
    for k in range(depth - 1, 0, -1):
        post.extend(leaves[k])
        post.append(chain[k - 1])
    exp = {
        IterMethod.PRE_ORDER: pre,
        IterMethod.POST_ORDER: post,
        IterMethod.LEVEL_ORDER: [n for lv in levels for n in lv],
        IterMethod.LEVEL_ORDER_RTL: [n for lv in levels for n in reversed(lv)],
        IterMethod.ZIGZAG: [n for k, lv in enumerate(levels) for n in (reversed(lv) if k % 2 else lv)],
        IterMethod.ZIGZAG_RTL: [n for k, lv in enumerate(levels) for n in (lv if k % 2 else reversed(lv))],
    }
    # the same below the only top node (add_self: the start node first - last for post-order -, then its branch,
    # whose first level is level 1 of the tree)
    sub_levels = levels[1:]
    exp_node = {
        IterMethod.PRE_ORDER: pre,
        IterMethod.POST_ORDER: post,
        IterMethod.LEVEL_ORDER: [chain[0]] + [n for lv in sub_levels for n in lv],
        IterMethod.LEVEL_ORDER_RTL: [chain[0]] + [n for lv in sub_levels for n in reversed(lv)],
        IterMethod.ZIGZAG: [chain[0]] + [n for k, lv in enumerate(sub_levels) for n in (reversed(lv) if k % 2 else lv)],
        IterMethod.ZIGZAG_RTL: [chain[0]] + [n for k, lv in enumerate(sub_levels) for n in (lv if k % 2 else reversed(lv))],
    }
    rec.nt(True)
    rec.cls(f"depth={depth}")
    top = chain[0]
    for m, e in exp.items():
        rec.evals += 2
        try:
            got = list(tree.iterator(m))
            got2 = list(top.iterator(m, add_self=True))
        except RecursionError:
            rec.fail(f"deep:iter:{m.value}:RecursionError", {"depth": depth})
            continue
        if ids(got) != ids(e):
            rec.fail(f"deep:iter:{m.value}", {"depth": depth, "len": len(got)})
        if ids(got2) != ids(exp_node[m]):  # the whole tree hangs below the only top node
            rec.fail(f"deep:node.iter:{m.value}:add_self", {"depth": depth, "len": len(got2)})
    mid = chain[depth // 2]
    for m in VISITABLE:
        e = exp[m]
        calls = []
        rec.evals += 3
        try:
            with warnings.catch_warnings():
                warnings.simplefilter("ignore")
                tree.visit(lambda n, memo: calls.append(n), method=m)
                if ids(calls) != ids(e):
                    rec.fail(f"deep:visit:{m.value}:order", {"depth": depth, "len": len(calls)})
                calls = []

                def stop(n, memo):
                    calls.append(n)
                    if n is mid:
                        return StopTraversal("v")

                r = tree.visit(stop, method=m)
                if r != "v" or ids(calls) != ids(e[: [id(x) for x in e].index(id(mid)) + 1]):
                    rec.fail(f"deep:visit:{m.value}:stop", {"depth": depth, "len": len(calls), "ret": repr(r)})
                if m != IterMethod.POST_ORDER:
                    calls = []

                    def skip(n, memo):
                        calls.append(n)
                        if n is mid:
                            return SkipBranch

                    tree.visit(skip, method=m)
                    k0 = depth // 2
                    below = {id(x) for k in range(k0 + 1, depth) for x in levels[k]}
                    if ids(calls) != [i for i in ids(e) if i not in below]:
                        rec.fail(f"deep:visit:{m.value}:skip", {"depth": depth, "len": len(calls)})
        except RecursionError:
            rec.fail(f"deep:visit:{m.value}:RecursionError", {"depth": depth})


def deep_cases(tier):
    yield {"depth": 700, "width": 0}
    yield {"depth": 650, "width": 2}
    if tier == "thorough":
        yield {"depth": 800, "width": 1}
        yield {"depth": 300, "width": 5}


@st.composite
def clone_cases(draw, tier):
    """Small alphabet: the same data under several parents (clones), also on one level, typed or plain."""
    typed = draw(st.booleans())
    spec = draw(gen.forest_specs(max_nodes=12, max_depth=4, max_width=4, alphabet=["a", "b", "c", "d"], min_nodes=4,
                                 opts=gen.node_opts(explicit_ids=False, kinds=typed)))
    n = gen.spec_nodes(spec)
    return {"spec": spec, "typed": typed, "start": draw(st.integers(-1, max(0, n - 1)))}


def run_requery(case, rec):
    """Traverse, mutate (also through refused calls), traverse the same tree again."""
    from vlib import requery

    def check(tree, rec, eng):
        w = walk(tree)
        check_at(tree, None, rec)
        if not rec.failed and w.pre and case["start"] >= 0:
            check_at(tree, pick_start(tree, w, case["start"]), rec)
        # random access is part of the same clause ("a permutation of the same nodes")
        if not rec.failed and w.pre:
            for _ in range(3):
                rn = tree.get_random_node()
                rec.evals += 1
                if not any(rn is n for n in w.pre):
                    rec.fail("get_random_node:not-in-tree", repr(rn))
                    break

    tree_box = []

    def check_and_keep(tree, rec, eng):
        if not tree_box:
            tree_box.append(tree)
        check(tree, rec, eng)

    q = requery.run(case, rec, check_and_keep)
    rec.nt(bool(q and q >= 2 and len(case["ops"]) >= 2))
    # directed last step: a childless node that is the only child of its parent is removed with keep_children=True
    # (there is nothing to keep): the parent is a leaf afterwards, whatever its child slot looks like inside - all
    # traversal clauses (skip / stop at every node in every order) are evaluated once more
    if not rec.failed and tree_box:
        tree = tree_box[0]
        w = walk(tree)
        if w.problems:
            return
        only = [n for n in w.pre if not w.kids[id(n)] and w.parent[id(n)] is not None and len(w.kids[id(w.parent[id(n)])]) == 1]
        if only:
            try:
                only[case["start"] % len(only)].remove(keep_children=True)
            except Exception:  # noqa: BLE001  (C04's subject)
                return
            rec.cls("after-un-nesting-a-childless-only-child")
            check_at(tree, None, rec)


@st.composite
def requery_cases(draw, tier):
    from vlib import requery

    case = draw(requery.cases(max_ops=8, max_nodes=9))
    case["start"] = draw(st.integers(-1, 8))
    return case


# (what round 8 added to the case domain; part of the evidence text)
RULE_ROUND8 = ' One generated forest in 20 (60 in the thorough tier) is a BIG one (gen.big_specs: a child list of 11..300 nodes, that many clones of one data object, more than 256 nodes), with node references aimed at notable positions of the long child lists. (width <= 130). Control signals also as instances of application-defined subclasses of SkipBranch / StopTraversal, returned and raised.'
RULE = RULE + RULE_ROUND8

RULE_ROUND9 = " Every method's result is consumed through the iterator protocol (iter(it) is it, next()); two traversals of one start are consumed in lock step (zip) and a traversal is abandoned after its first node before another one runs."
RULE = RULE + RULE_ROUND9

PARTS = [
    Part("exhaustive", run, enum=enum_cases),
    Part("random-deep-wide", run, strategy=lambda tier: hyp_cases(tier), n={"quick": 100, "thorough": 20000}),
    Part("deep", run_deep, enum=deep_cases),
    Part("clones-typed", run, strategy=lambda tier: clone_cases(tier), n={"quick": 300, "thorough": 20000}),
    Part("query-mutate-query", run_requery, strategy=lambda tier: requery_cases(tier), n={"quick": 300, "thorough": 20000}),
]
