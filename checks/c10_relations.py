"""C10 - relationship queries agree with the actual shape (DESIGN section 3, C10)."""

from __future__ import annotations

from hypothesis import strategies as st

from vlib import enumer, gen
from vlib.build import ALPHA, build
from vlib.core import Part
from vlib.observe import walk

from nutree import Tree  # noqa: E402
from nutree.node import Node  # noqa: E402

ID = "C10"
LEVEL = "exploration"
TECHNIQUE = 'bounded-exhaustive enumeration + Hypothesis; recomputation from the parent map for every node and ordered pair'
LEVEL_TEXT = 'exploration with an exhaustive part: all forests up to the bound, every node and every ordered pair, plus random trees with clones and equal-comparing siblings'
RULE = (
    "case = tree spec; exhaustive part: every ordered forest with <= N uniquely labelled nodes; Hypothesis part: "
    "trees with clones and with equal-comparing siblings (same data, distinct explicit data_ids), and trees reached "
    "through a short mutation history (remove with keep_children, move, clear, filter, ...; there the queries are "
    "evaluated on the same tree before the history, after a generated subset of its steps and at its end). Per case every "
    "relationship query of every node and of every ordered pair of nodes is compared with values recomputed from "
    "the parent map / child lists of an independent structural walk (by identity). Non-trivial: some node has "
    ">= 2 siblings or depth >= 3; distinct = distinct spec."
)
ASSUMPTIONS = [
    "queries that traverse a whole branch (calc_height, count_descendants, iteration) are recursion-limited in nutree; chains deeper than the recursion limit are only probed with the ancestry queries (part deep-chain)",
    "Tree.children / Node.children are the trusted accessors the reference is computed from",
    "get_common_ancestor(a, b) may return a or b themselves (docstring: 'nearest node that contains self and other')",
]
EXHAUSTIVE_NOTE = {"quick": "all ordered forests with <= 6 nodes", "thorough": "all ordered forests with <= 9 nodes"}


def nm(x):
    if x is None:
        return None
    if isinstance(x, (list, tuple)):
        return [nm(i) for i in x]
    try:
        return f"{x.data}#{x.data_id}" if x.data_id != hash(x.data) else f"{x.data}"
    except Exception:  # noqa: BLE001
        return repr(x)


def same(a, b):
    return a is b


def same_list(a, b):
    return len(a) == len(b) and all(x is y for x, y in zip(a, b))


class LoudNode(Node):
    """a custom node class (Tree(factory=...)) that defines its own display name"""

    @property
    def name(self):
        return f"{self.data}".upper() + "!"


def namef(x):
    # the documented name of a node is str(data) - unless the tree's node class says otherwise
    return f"{x.data}".upper() + "!" if type(x) is LoudNode else str(x.data)


def run(case, rec):
    spec = case["spec"]
    if case.get("factory"):
        tree, nodes = build(spec, tree=Tree("T", factory=LoudNode))
        rec.cls("custom-node-class-with-own-name")
    else:
        tree, nodes = build(spec)
    check_tree(tree, rec, len(nodes))
    if case.get("twin") and nodes and not rec.failed:
        # a second tree alive in the same process, built from the same spec with the SAME explicit node_ids (ids are
        # unique per tree only): nodes of different trees are unrelated, whatever their ids say
        import copy as _copy

        def with_nids(sp, counter):
            out = []
            for n in sp:
                o = dict(n[2]) if len(n) > 2 and n[2] else {}
                counter[0] += 1
                o["nid"] = 9000 + counter[0]
                out.append([n[0], with_nids(n[1], counter), o])
            return out

        t1, n1 = build(with_nids(_copy.deepcopy(spec), [0]), name="A")
        t2, n2 = build(with_nids(_copy.deepcopy(spec), [0]), name="B")
        rec.cls("twin-tree-with-the-same-node_ids")
        for i in range(min(len(n1), 6)):
            for j in range(min(len(n2), 6)):
                a, b = n1[i], n2[(j * 2 + 1) % len(n2)]
                rec.evals += 1
                try:
                    got = (a.get_common_ancestor(b), a.is_descendant_of(b), a.is_ancestor_of(b), b.is_descendant_of(a))
                except Exception as e:  # noqa: BLE001
                    rec.fail("twin-tree:query-raises", repr(e)[:120])
                    return
                if got != (None, False, False, False):
                    rec.fail("twin-tree:nodes-of-different-trees-reported-as-related", {"a": repr(a), "b": repr(b), "got": repr(got)})
                    return
        check_tree(t1, rec, len(n1))


def run_after_history(case, rec):
    """The same queries on ONE tree before a mutation history, after a generated subset of its steps and at its end
    (internal representations such as 'no children' may differ from a freshly built tree, and an answer that was
    remembered from an earlier query must not survive a mutation)."""
    from vlib import requery

    def check(tree, rec, eng):
        check_tree(tree, rec, None)

    case = dict(case, typed=False)
    q = requery.run(case, rec, check)
    if q:
        rec.cls("after-history")


def check_tree(tree, rec, n_expected):
    w = walk(tree)
    if w.problems or (n_expected is not None and len(w.pre) != n_expected):
        rec.fail("walk", w.problems)
        return
    kids, parent, depth = w.kids, w.parent, w.depth
    pre = w.pre
    n_eq = 0
    ev = 0

    def chk(name, ok, detail=None):
        nonlocal ev
        ev += 1
        if not ok:
            rec.fail(name, detail)

    def descendants(n):
        out = []
        for c in kids[id(n)]:
            out.append(c)
            out.extend(descendants(c))
        return out

    def height(n):
        ks = kids[id(n)]
        return 0 if not ks else 1 + max(height(c) for c in ks)

    def chain(n):  # ancestors top-down, excluding n
        out = []
        p = parent[id(n)]
        while p is not None:
            out.append(p)
            p = parent[id(p)]
        out.reverse()
        return out

    top = kids[id(None)]
    chk("tree.children", same_list(list(tree.children), top))
    chk("tree.calc_height", tree.calc_height() == (max((depth[id(n)] for n in pre), default=0)), tree.calc_height())
    chk("tree.first_child", tree.first_child() is (top[0] if top else None))
    chk("tree.last_child", tree.last_child() is (top[-1] if top else None))
    tl = tree.get_toplevel_nodes()
    chk("tree.get_toplevel_nodes", isinstance(tl, list) and same_list(tl, top), [repr(tl)[:80]])

    interesting = False
    for n in pre:
        p = parent[id(n)]
        sibs = kids[id(p)]
        idx = [i for i, s in enumerate(sibs) if s is n]
        if len(idx) != 1:
            rec.fail("walk:not-once-in-parent", nm(n))
            return
        i = idx[0]
        d = depth[id(n)]
        if len(sibs) >= 3 or d >= 3:
            interesting = True
        if any(s is not n and s.data == n.data for s in sibs):
            n_eq += 1
        me = nm(n)
        anc = chain(n)
        ks = kids[id(n)]
        desc = descendants(n)

        chk("parent", n.parent is p, [me, nm(n.parent), nm(p)])
        # up(k)
        for k in range(1, d + 1):
            exp = (anc + [n])[d - k - 1] if k < d else tree.system_root
            try:
                got = n.up(k)
            except Exception as e:  # noqa: BLE001
                got = e
            chk("up", got is exp, [me, k, nm(got) if not isinstance(got, Exception) else repr(got)])
        for k in (0, -1, d + 1, d + 2):
            try:
                got = n.up(k)
                chk("up:beyond-root-or-nonpositive-must-raise", False, [me, k, nm(got)])
            except ValueError:
                chk("up:raises", True)
            except Exception as e:  # noqa: BLE001
                chk("up:wrong-exception", False, [me, k, repr(e)])
        chk("children", same_list(list(n.children), ks))
        chk("get_children", same_list(list(n.get_children()), ks))
        chk("first_child", n.first_child() is (ks[0] if ks else None), [me])
        chk("last_child", n.last_child() is (ks[-1] if ks else None), [me])
        chk("has_children", n.has_children() is bool(ks), [me])
        chk("is_leaf", n.is_leaf() is (not ks), [me])
        chk("get_siblings", same_list(list(n.get_siblings()), [s for s in sibs if s is not n]), [me, nm(n.get_siblings())])
        chk("get_siblings:add_self", same_list(list(n.get_siblings(add_self=True)), sibs), [me])
        chk("first_sibling", n.first_sibling() is sibs[0], [me])
        chk("last_sibling", n.last_sibling() is sibs[-1], [me])
        exp_prev = sibs[i - 1] if i > 0 else None
        exp_next = sibs[i + 1] if i + 1 < len(sibs) else None
        got = n.prev_sibling()
        chk("prev_sibling", got is exp_prev, [me, "i=%d" % i, nm(got), nm(exp_prev), nm(sibs)])
        got = n.next_sibling()
        chk("next_sibling", got is exp_next, [me, "i=%d" % i, nm(got), nm(exp_next), nm(sibs)])
        got = n.get_index()
        chk("get_index", got == i, [me, got, i, nm(sibs)])
        chk("is_first_sibling", n.is_first_sibling() is (i == 0), [me])
        chk("is_last_sibling", n.is_last_sibling() is (i == len(sibs) - 1), [me])
        chk("depth", n.depth() == d and n.calc_depth() == d, [me, n.depth(), d])
        chk("calc_height", n.calc_height() == height(n), [me, n.calc_height(), height(n)])
        chk("get_top", n.get_top() is (anc[0] if anc else n), [me])
        chk("is_top", n.is_top() is (p is None), [me])
        chk("is_system_root", n.is_system_root() is False, [me])
        for add_self in (False, True):
            for bottom_up in (False, True):
                exp = anc + [n] if add_self else list(anc)
                if bottom_up:
                    exp = exp[::-1]
                got = n.get_parent_list(add_self=add_self, bottom_up=bottom_up)
                chk("get_parent_list", same_list(got, exp), [me, add_self, bottom_up, nm(got), nm(exp)])
        chk("depth==len(parent_list)+1", n.depth() == len(n.get_parent_list()) + 1)
        exp_path = "/" + "/".join(namef(x) for x in anc + [n])
        chk("path", n.path == exp_path and n.get_path() == exp_path, [me, n.path, exp_path])
        exp_path2 = "/" + "/".join(namef(x) for x in anc)
        chk("get_path:add_self=False", n.get_path(add_self=False) == exp_path2, [me, n.get_path(add_self=False), exp_path2])
        chk("get_path:separator", n.get_path(separator="|") == "|" + "|".join(namef(x) for x in anc + [n]), [me])
        # all option combinations: add_self x separator x repr
        for add_self in (True, False):
            for sep in ("/", " > "):
                for rp, fn in (("{node.data_id}", lambda x: f"{x.data_id}"), ("<{node.name}>", lambda x: f"<{namef(x)}>")):
                    exp_c = sep + sep.join(fn(x) for x in (anc + [n] if add_self else anc))
                    got_c = n.get_path(add_self=add_self, separator=sep, repr=rp)
                    chk("get_path:add_self,separator,repr", got_c == exp_c, [me, add_self, sep, rp, got_c, exp_c])
        chk("count_descendants", n.count_descendants() == len(desc), [me, n.count_descendants(), len(desc)])
        leaves = [x for x in desc if not kids[id(x)]]
        chk("count_descendants:leaves_only", n.count_descendants(leaves_only=True) == len(leaves), [me, n.count_descendants(leaves_only=True), len(leaves)])
        # mutual consistency
        nx = n.next_sibling()
        if nx is not None:
            chk("next.prev is self", nx.prev_sibling() is n, [me])
        pv = n.prev_sibling()
        if pv is not None:
            chk("prev.next is self", pv.next_sibling() is n, [me])

        desc_ids = {id(x) for x in desc}
        anc_self = anc + [n]
        for o in pre:
            exp = id(o) in desc_ids
            chk("is_ancestor_of", n.is_ancestor_of(o) is exp, [me, nm(o)])
            chk("is_descendant_of", o.is_descendant_of(n) is exp, [nm(o), me])
            oc = chain(o) + [o]
            common = None
            for a, b in zip(anc_self, oc):
                if a is b:
                    common = a
                else:
                    break
            got = n.get_common_ancestor(o)
            chk("get_common_ancestor", got is common, [me, nm(o), nm(got), nm(common)])
    rec.nt(interesting)
    rec.cls("nodes=%d" % min(len(pre), 10))
    if n_eq:
        rec.cls("has-equal-comparing-siblings")
    rec.evals += ev


def enum_cases(tier):
    for spec in enumer.forests_upto(6 if tier == "quick" else 9):
        yield {"spec": spec}
    # narrow and deep: leaves on few, far apart levels (a chain of d nodes next to / below shallow leaves)
    for d in range(2, 14 if tier == "quick" else 40):
        def chain(k, tag):
            return [] if k == 0 else [[f"{tag}{k}", chain(k - 1, tag)]]

        yield {"spec": [["l0", []]] + chain(d, "c")}
        yield {"spec": chain(d, "c") + [["l0", []]]}
        yield {"spec": [["top", [["l1", []]] + chain(d, "c") + [["l2", [["l3", []]]]]]]}


# (names that contain the path separators in use: "/", "|", " > ")
C10_ALPHA = ALPHA + ["x/y", "p|q", "a > b", "/"]


@st.composite
def hyp_cases(draw, tier):
    mode = draw(st.sampled_from(["clones", "eqsib", "eqsib", "deep"]))
    if mode == "deep":
        spec = draw(gen.forest_specs(max_nodes=24, max_depth=10, max_width=3, min_nodes=3, alphabet=C10_ALPHA))
        return {"spec": spec, "factory": draw(st.sampled_from([False, False, True])), "twin": draw(st.sampled_from([False, False, True]))}
    spec = draw(gen.forest_specs(max_nodes=18, max_depth=5, max_width=5, min_nodes=3, alphabet=C10_ALPHA))
    if mode == "eqsib":
        # give some nodes the data of one of their siblings under a distinct explicit data_id
        counter = [0]

        def rec_(nodes):
            for j, n in enumerate(nodes):
                if j > 0 and draw(st.integers(0, 2)) == 0:
                    src = nodes[draw(st.integers(0, j - 1))]
                    n[0] = src[0]
                    counter[0] += 1
                    del n[2:]
                    n.append({"id": f"E{counter[0]}"})
                rec_(n[1])

        rec_(spec)
    return {"spec": spec, "factory": draw(st.sampled_from([False, False, True]))}


def run_deep_chain(case, rec):
    """A chain deeper than the interpreter's recursion limit: the ancestry queries (which walk parent links)
    must still answer; queries that traverse the whole branch (calc_height, count_descendants, iteration) are
    recursion-limited in nutree and are not called here."""
    from nutree import Tree

    depth, width = case["depth"], case["width"]
    tree = Tree("deep")
    chain = []
    parent = tree
    for i in range(depth):
        n = parent.add(f"n{i}")
        for j in range(width):
            parent.add(f"s{i}_{j}")
        chain.append(n)
        parent = n
    rec.nt(True)
    ev = 0
    for k in case["probe"]:
        n = chain[k % depth]
        d = (k % depth) + 1

        def q(name, fn, exp):
            nonlocal ev
            ev += 1
            try:
                got = fn()
            except Exception as e:  # noqa: BLE001
                rec.fail(f"deep:{name}:raises:{type(e).__name__}", {"depth": d})
                return
            if got is not exp and got != exp:
                rec.fail(f"deep:{name}", {"depth": d, "got": repr(got)[:80], "exp": repr(exp)[:80]})

        q("depth", n.depth, d)
        q("calc_depth", n.calc_depth, d)
        q("parent", lambda: n.parent, chain[d - 2] if d > 1 else None)
        q("get_top", n.get_top, chain[0])
        q("is_top", n.is_top, d == 1)
        q("len(get_parent_list)", lambda: len(n.get_parent_list()), d - 1)
        q("get_parent_list[0]", lambda: (n.get_parent_list(add_self=True) or [None])[0], chain[0])
        q("get_parent_list(bottom_up)[0]", lambda: n.get_parent_list(add_self=True, bottom_up=True)[0], n)
        q("up(1)", lambda: n.up(1), chain[d - 2] if d > 1 else tree.system_root)
        q("up(depth)", lambda: n.up(d), tree.system_root)
        q("is_descendant_of(top)", lambda: n.is_descendant_of(chain[0]), d > 1)
        q("top.is_ancestor_of", lambda: chain[0].is_ancestor_of(n), d > 1)
        q("get_common_ancestor(mid)", lambda: n.get_common_ancestor(chain[(d - 1) // 2]), chain[(d - 1) // 2])
        q("path-count", lambda: n.path.count("/"), d)
        q("get_index", n.get_index, 0)
        q("is_first_sibling", n.is_first_sibling, True)
        q("is_last_sibling", n.is_last_sibling, width == 0)
        q("len(get_siblings)", lambda: len(n.get_siblings()), width)
        q("has_children", n.has_children, d < depth)
        q("is_leaf", n.is_leaf, d == depth)
    rec.evals += ev


def deep_cases(tier):
    yield {"depth": 1200, "width": 0, "probe": [0, 1, 600, 1100, 1199]}
    yield {"depth": 1100, "width": 1, "probe": [0, 5, 999, 1099]}
    if tier == "thorough":
        yield {"depth": 3000, "width": 0, "probe": [0, 1500, 2999]}


@st.composite
def history_cases(draw, tier):
    from vlib import gen_ops

    case = draw(gen_ops.histories(typed=False, max_ops=8, max_nodes=10,
                                  kinds=["remove", "remove", "move", "move", "add", "remove_children", "sort", "add_node", "set_data", "filter"]))
    # directed tail: un-nest / remove / empty some nodes (also leaves and only children)
    tail = draw(st.lists(st.one_of(
        st.tuples(st.just("remove"), st.integers(0, 40), st.just(True), st.just(False)).map(list),
        st.tuples(st.just("remove"), st.integers(0, 40), st.just(False), st.just(False)).map(list),
        st.tuples(st.just("remove_children"), st.integers(0, 40)).map(list),
        st.tuples(st.just("move"), st.integers(0, 40), st.integers(-1, 40), st.none()).map(list),
    ), min_size=1, max_size=4))
    case["ops"] = case["ops"] + tail
    # steps after which the queries are evaluated again (always before the first and after the last one)
    case["q"] = draw(st.lists(st.sampled_from([0, 0, 1]), min_size=len(case["ops"]), max_size=len(case["ops"])))
    return case


# (what round 8 added to the case domain; part of the evidence text)
RULE_ROUND8 = " One generated forest in 20 (60 in the thorough tier) is a BIG one (gen.big_specs: a child list of 11..300 nodes, that many clones of one data object, more than 256 nodes), with node references aimed at notable positions of the long child lists. Names contain the path separators in use ('x/y', 'p|q', 'a > b', '/'); a third of the random cases use Tree(factory=<Node subclass with its own name>)."
RULE = RULE + RULE_ROUND8

RULE_ROUND9 = ' Enumerated narrow-and-deep shapes (a chain of 2..13 (thorough: 39) nodes next to / below shallow leaves); a third of the random cases build a twin tree from the same spec with the same explicit node_ids: nodes of different trees are unrelated (common ancestor None, no ancestor / descendant relation); get_toplevel_nodes() must be a list.'
RULE = RULE + RULE_ROUND9

PARTS = [
    Part("after-history", run_after_history, strategy=history_cases, n={"quick": 800, "thorough": 40000}),
    Part("exhaustive", run, enum=enum_cases),
    Part("deep-chain", run_deep_chain, enum=deep_cases),
    Part("random-clones-eqsiblings", run, strategy=lambda tier: hyp_cases(tier), n={"quick": 400, "thorough": 60000}),
]
