"""C04 - every mutation has exactly its documented effect and no other (DESIGN section 3, C04)."""

from __future__ import annotations

from hypothesis import strategies as st

from vlib import enumer, gen_ops
from vlib.core import Part, optimized_part
from vlib.ops import Engine, engine_known, flush_excluded

ID = "C04"
LEVEL = "exploration"
TECHNIQUE = 'model-based testing: bounded-exhaustive single steps + Hypothesis histories against an independent executable model'
LEVEL_TEXT = 'exploration with an exhaustive part: every forest up to the stated bound x every operation x every documented-valid argument as a single step, plus random histories, compared with an independent model including node identity; complete inside the bound only'
RULE = (
    "exhaustive part: every ordered forest with <= N uniquely labelled nodes (and every sibling-unique labeling over "
    "{a,b} for <= M nodes, i.e. with clones) x every operation kind x every documented-valid argument combination "
    "(each node, each target, each `before` variant incl. every index and every child) as a single step; Hypothesis "
    "part: histories of <= 40/80 ops on plain and typed trees (swarm profiles). Oracle: after every step the full "
    "observation of the real tree (node identity, data identity, data_id, kind, meta, parent links, child order) "
    "equals that of an independent executable model of the documented semantics; valid ops must not raise, invalid "
    "ones must raise the documented error class; add*/copy_to return the new node. Non-trivial: a step that changes "
    "the observation (or is refused) on a tree with >= 3 nodes; distinct = distinct case."
)
ASSUMPTIONS = [
    "argument combinations the documentation leaves open (int positions without an existing child of that index, int position in a same-parent move, deep copy of a branch into itself, explicit duplicate node_ids, nested clones with keep_children) are never compared with the model",
    "remove(keep_children=True): position of the un-nested children is free, old siblings keep their order; sort: any order among equal keys",
    "meta None and {} are identified",
]
EXHAUSTIVE_NOTE = {"quick": "forests <= 5 nodes (unique labels) + typed forests <= 4 + clone labelings <= 4 nodes, all single steps", "thorough": "forests <= 7 nodes (unique labels) + typed forests <= 5 + clone labelings <= 5 nodes, all single steps"}

COUNTED = {"effect", "raised", "unrefused", "wrong-exception"}


def run_history(case, rec):
    eng = Engine(case["spec"], typed=case.get("typed", False), spec2=case.get("spec2"), known=engine_known(rec),
                 flavour=case.get("flavour", "str"))
    changed = 0
    if eng.build_problems:
        rec.fail("effect:build:" + eng.build_problems[0][0], eng.build_problems[0])
        return
    for op in case["ops"]:
        flush_excluded(eng, rec)
        size = eng.model.count()
        before = eng.model.snapshot()
        out = eng.step(op, check_unchanged=False)
        rec.evals += 1
        rec.cls(f"status={out.plan.status}")
        if out.plan.status in ("valid", "refuse"):
            rec.cls(f"op={out.plan.route.split(':')[0]}")
        bad = [e for e in out.events if e[0] in COUNTED]
        if bad:
            for cat, bucket, detail in bad[:2]:
                rec.fail(bucket, {"op": op, "detail": detail})
            return
        if size >= 3 and (out.plan.status == "refuse" or (out.plan.status == "valid" and eng.model.snapshot() != before)):
            changed += 1
    rec.nt(changed >= 1)


def single_ops(spec, with_copies=True):
    """Every documented-valid single operation on `spec` (node refs = pre-order indices)."""
    flat = []

    def rec_(nodes, parent):
        for n in nodes:
            idx = len(flat)
            flat.append((n, parent))
            rec_(n[1], idx)

    rec_(spec, -1)
    n = len(flat)
    kids_of = {-1: [i for i, (_, p) in enumerate(flat) if p == -1]}
    for i in range(n):
        kids_of[i] = [j for j, (_, p) in enumerate(flat) if p == i]

    def befores(parent):
        k = len(kids_of[parent])
        out = [None, True, False]
        out += [["i", j] for j in range(k)]
        out += [["c", j] for j in range(k)]
        return out

    for p in [-1] + list(range(n)):
        for b in befores(p):
            yield ["add", p, "new", b, {}]
    for i in range(n):
        for kind in ("append_child", "prepend_child", "prepend_sibling", "append_sibling"):
            yield [kind, i, "new", {}]
        for t in [-1] + list(range(n)):
            for b in befores(t):
                yield ["move", i, t, b]
        yield ["move", i, -2, None]  # to another tree (the Tree object / one of its nodes): refused
        yield ["move", i, -3, None]
        for kc in (False, True):
            yield ["remove", i, kc, False]
        yield ["remove", i, False, True]
        yield ["remove_children", i]
        yield ["del", i, "data"]
        yield ["rename", i, "new"]
        yield ["rename", i, flat[i][0][0]]
        yield ["set_data", i, "new", None, None, False]
        yield ["set_data", i, None, "NEWID", None, False]
        yield ["set_data", i, "new", "NEWID", False, False]
        yield ["set_data", i, "new", None, True, False]
        yield ["set_data", i, "new", "=", False, False]
        yield ["meta", i, "set", "k1", 1]
        for rev in (False, True):
            for deep in (None, True, False):
                yield ["sort", i, "rev-name", rev, deep]
        if with_copies:
            for t in [-1] + list(range(n)):
                for deep in (None, True, False):
                    yield ["add_node", t, 0, i, deep, None]
                yield ["copy_to", i, t, True, True, True]
                yield ["copy_to", i, t, False, None, False]
                yield ["copy_to", i, t, False, None, True]
    yield ["clear"]
    for rev in (False, True):
        for deep in (None, True, False):
            yield ["sort", -1, "default", rev, deep]
    yield ["filter", [flat[i][0][0] for i in range(0, n, 2)]]
    yield ["add_tree", -1, None, None]
    yield ["add_tree", -1, True, None]
    for i in range(n):
        for how in ("append_child", "prepend_child", "prepend_sibling", "append_sibling"):
            yield ["shortcut_tree", how, i, None]
            yield ["shortcut_tree", how, i, False]
    # the tree copied into itself: below every node (the copy shows the tree as it was before), and at top level
    for t in [-1] + list(range(n)):
        yield ["add_own_tree", t, None, None]
        yield ["add_own_tree", t, True, False]
        yield ["own_copy_to", t, None]
    if n:
        yield ["add_tree", 0, None, None]
        yield ["add_tree", -1, ["c", 0], True]
        yield ["add_tree", -1, ["i", 0], False]


SPEC2 = [["s1", [["s2", []]]], ["s3", []]]


def enum_cases(tier):
    nmax = 5 if tier == "quick" else 7
    for spec in enumer.forests_upto(nmax):
        for op in single_ops(spec, with_copies=enumer.spec_size(spec) <= (4 if tier == "quick" else 5)):
            yield {"spec": spec, "spec2": SPEC2, "ops": [op]}
    # typed trees: kinds alternate over the pre-order (move is refused there and must stay refused)
    tmax = 4 if tier == "quick" else 5
    for spec in enumer.forests_upto(tmax, 1):
        kinds = ["x", "y", "child"]
        counter = [0]

        def with_kinds(nodes):
            out = []
            for n in nodes:
                k = kinds[counter[0] % 3]
                counter[0] += 1
                out.append([n[0], with_kinds(n[1]), {"kind": k}])
            return out

        tspec = with_kinds(spec)
        for op in single_ops(spec, with_copies=enumer.spec_size(spec) <= 3):
            if op[0] in ("add", "append_child", "prepend_child") and enumer.spec_size(spec) <= 3:
                op2 = list(op)
                op2[-1] = {"kind": "y"}
                yield {"spec": tspec, "spec2": [["s1", [["s2", [], {"kind": "x"}]]], ["s3", [], {"kind": "y"}]], "typed": True, "ops": [op2]}
            yield {"spec": tspec, "spec2": [["s1", [["s2", [], {"kind": "x"}]]], ["s3", [], {"kind": "y"}]], "typed": True, "ops": [op]}
    # clone labelings
    mmax = 4 if tier == "quick" else 5
    for n in range(2, mmax + 1):
        for shape in enumer.forest_shapes(n):
            for spec in enumer.sibling_unique_labelings(shape, ["a", "b"]):
                for op in single_ops(spec, with_copies=n <= 3):
                    yield {"spec": spec, "spec2": SPEC2, "ops": [op]}


def enum_two_step(tier):
    from checks.c01_wellformed import enum_cases as two_step

    yield from two_step(tier)


@st.composite
def hyp_cases(draw, tier):
    typed = draw(st.booleans())
    flavour = draw(st.sampled_from(["str", "str", "tuple", "dc", "obj_cb", "dictwrap", "obj_fwd", "obj_sub", "int", "str_kid"]))
    case = draw(gen_ops.histories(typed=typed, max_ops=40 if tier == "quick" else 80, fresh=flavour != "str", big=8))
    case["flavour"] = flavour
    if draw(st.sampled_from([0] * 7 + [1])):
        # directed: siblings whose NAMES sort differently from their repr() / from their data ("a" < "a 1" < "a1",
        # but "'a 1'" < "'a'"), then the documented default order (by name)
        p = draw(st.integers(-1, 6))
        labs = draw(st.permutations(["a", "a 1", "a1", "b"]))
        case["ops"] = [["add", p, lab, None, {}] for lab in labs[:3]] + [["sort", p, "default", draw(st.booleans()), draw(st.sampled_from([None, True, False]))]] + case["ops"][:6]
    return case


@st.composite
def big_cases(draw, tier):
    """one to three operations on a BIG tree (see gen.big_specs), aimed at notable sibling positions"""
    from checks.c01_wellformed import BIG_KINDS

    typed = draw(st.sampled_from([False, False, True]))
    case = draw(gen_ops.histories(typed=typed, max_ops=3, min_ops=1, kinds=BIG_KINDS, big=1))
    case["flavour"] = draw(st.sampled_from(["str", "str", "obj_cb", "tuple"]))
    return case


# (what round 8 added to the case domain; part of the evidence text)
RULE_ROUND8 = " One generated forest in 20 (60 in the thorough tier) is a BIG one (gen.big_specs: a child list of 11..300 nodes, that many clones of one data object, more than 256 nodes), with node references aimed at notable positions of the long child lists. Part big-trees: 1-3 operations on a big tree. One history in eight starts with siblings whose names sort differently from their repr() ('a', 'a 1', 'a1') followed by the default sort. Flavours obj_sub and int added. Part python-O: single-steps and histories with PYTHONOPTIMIZE=1."
RULE = RULE + RULE_ROUND8

RULE_ROUND9 = ' Flavour str_kid: a TypedTree subclass overriding DEFAULT_CHILD_TYPE (the model takes the default kind from the tree); both trees of a history carry the same explicit node_ids in a third of the cases (cross-tree moves must still be refused).'
RULE = RULE + RULE_ROUND9

PARTS = [
    Part("single-steps", run_history, enum=enum_cases),
    Part("two-step-clones", run_history, enum=enum_two_step),
    Part("histories", run_history, strategy=hyp_cases, n={"quick": 600, "thorough": 120000}),
    Part("big-trees", run_history, strategy=big_cases, n={"quick": 300, "thorough": 20000}),
    optimized_part("C04", ['single-steps', 'histories']),
]
