"""C18 - snapshot operations honour the tree lock (DESIGN section 3, C18)."""

from __future__ import annotations

import io
import json
import os
import re
import shutil
import tempfile
import threading
import time

from hypothesis import strategies as st

from vlib.core import Part
from vlib.observe import shape
from vlib.sched import Sched, SchedTree, SchedTypedTree, next_schedule, yield_point

from nutree import SelectBranch, Tree, TypedTree

ID = "C18"
LEVEL = "exploration"
LEVEL_TEXT = (
    "systematic schedule exploration with a harness-owned scheduler: real threads, exactly one runs at a time, "
    "context switches only at yield points (lock boundaries of `with tree:`, between a writer's mutation steps, user "
    "callbacks and stream writes inside the snapshot operations). All schedules are enumerated for the smallest "
    "programs (one writer section x one snapshot operation, per operation), Hypothesis draws larger programs and "
    "schedules; plus a real-lock handshake test without the scheduler. Interleavings inside nutree between two yield "
    "points are not explored (byte-code level pre-emption is out of reach for this technique)."
)
TECHNIQUE = 'systematic schedule exploration with a harness-owned deterministic scheduler (real threads) + Hypothesis programs/schedules; real-lock handshake'
RULE = (
    "case = (1-2 writer threads, each a list of critical sections `with tree:` of 2-3 mutation steps whose "
    "intermediate states are distinguishable from every committed state (paired nodes, clear+rebuild, add+move), "
    "optionally nesting `with tree:` and calling snapshot operations inside; 1-3 reader threads calling save (to a "
    "stream and to a file path), to_dotfile (stream, path, and path with conversion by Graphviz), copy_to(deep=False), copy, "
    "copy(predicate), filtered, copy_to, to_dict_list(mapper), to_dotfile(stream, node_mapper), `with tree:`+iterate; "
    "a schedule = list of ints). Oracle: every snapshot, decoded to a shape, equals a committed state S_j with "
    "commits-at-call-start <= j <= commits-at-return; no deadlock, no hang; no exception. Exhaustive part: ALL "
    "schedules of (one 'pair' or 'rebuild' section) x (one snapshot operation). Real-lock part (real RLock, real timing): first use of the lock by two threads at once on a brand-new tree "
    "(lock construction slowed down), a writer that stays inside for 7 s, and: owner nests `with "
    "tree:` and calls every snapshot operation (must not deadlock); a second thread started while the owner is "
    "mid-section gets a committed state. Non-trivial: some thread blocked on the tree lock at least once; distinct = "
    "distinct (program, schedule)."
)
ASSUMPTIONS = [
    "writers mutate only inside `with tree:` (as the property states)",
    "context switches happen only at harness-visible yield points; a snapshot operation without callbacks is atomic for the scheduler",
    "real-lock part: a blocked reader is detected by content (it must return a committed state), the only timeout (300 s on operations that take microseconds) reports a deadlock",
]
EXHAUSTIVE_NOTE = {"quick": "all schedules of a pair section x each of 8 snapshot operations, of a rebuild section x {to_dict_list, save} and of a typed pair section x save (evidence classes say whether a limit was hit)", "thorough": "all schedules of {pair, rebuild, move} section x each of 8 snapshot operations, plus 2-section writers"}

READER_OPS = ["save", "copy", "copy_pred", "filtered", "copy_to", "to_dict_list", "to_dotfile", "with+iterate", "save_path", "to_dotfile_path", "copy_to_shallow"]
if shutil.which("dot"):
    # conversion by Graphviz (only where the `dot` program is installed)
    READER_OPS.append("to_dotfile_format")
SECTIONS = ["pair", "rebuild", "move"]


class YieldIO(io.StringIO):
    """stream whose every 3rd write() is a yield point (a reader can be parked inside its output phase)"""

    def __init__(self):
        super().__init__()
        self._n = 0

    def write(self, s):
        self._n += 1
        if self._n % 3 == 1:
            yield_point("stream.write")
        return super().write(s)


def base_tree(typed=False, big=0):
    t = _base_tree(typed)
    if big:
        # more nodes than any "chunk" a snapshot operation might process at a time
        f = t.add("fill", kind="k0") if typed else t.add("fill")
        for i in range(big):
            if typed:
                f.add(f"f{i}", kind="k1")
            else:
                f.add(f"f{i}")
    return t


def _base_tree(typed=False):
    if typed:
        t = SchedTypedTree("T")
        a = t.add("base1", kind="k0")
        a.add("b1a", kind="k1")
        t.add("base2", kind="k0")
        return t
    t = SchedTree("T")
    a = t.add("base1")
    a.add("b1a")
    t.add("base2")
    return t


def lab(n):
    # kinds are not part of the compared shape (the top node of a typed copy gets the default kind: known
    # finding D10a); typed trees are used because TypedTree.save() reads the kinds of all nodes
    return f"{n.data}"


def tshape(tree):
    return shape(tree, label=lab)


def add(parent, name, kind_tag=None):
    """add a node; in typed trees the writer uses a kind that no committed node had before"""
    if isinstance(parent, (TypedTree,)) or hasattr(parent, "kind"):
        return parent.add(name, kind=f"k-{kind_tag or name}")
    return parent.add(name)


def rebuild(parent, spec):
    for name, kids in spec:
        if isinstance(parent, TypedTree) or hasattr(parent, "kind"):
            n = parent.add(name, kind=f"k-{name}")
        else:
            n = parent.add(name)
        rebuild(n, kids)


def run_section(tree, kind, tag, committed, nest, inner_op):
    with tree:
        if kind == "pair":
            a = add(tree, f"{tag}a")
            yield_point("w")
            add(a, f"{tag}b")
        elif kind == "ends":
            # one change at the front and one at the end of the tree: a snapshot that reads the tree in several
            # critical sections shows one without the other
            if isinstance(tree, TypedTree):
                tree.add(f"{tag}a", kind=f"k-{tag}a", before=True)
            else:
                tree.add(f"{tag}a", before=True)
            yield_point("w")
            add(tree, f"{tag}z")
        elif kind == "rebuild":
            saved = tshape(tree)
            tree.clear()
            yield_point("w")
            rebuild(tree, saved)
            yield_point("w")
            add(tree, f"{tag}")
        else:  # move (typed trees cannot move: add the pair in two steps instead)
            a = add(tree, f"{tag}a")
            yield_point("w")
            if isinstance(tree, TypedTree):
                add(a, f"{tag}b")
                yield_point("w")
                add(a, f"{tag}c")
            else:
                b = tree.add(f"{tag}b")
                yield_point("w")
                b.move_to(a)
        if nest:
            # re-entrancy: the owner nests `with tree:` and calls a snapshot operation inside
            with tree:
                yield_point("w-nested")
                if inner_op:
                    do_reader_op(tree, inner_op)
        committed.append(tshape(tree))


def sel_pred(node):
    yield_point("predicate")
    return SelectBranch()


def y_mapper(node, data):
    yield_point("mapper")
    return None


DOT_NODE = re.compile(r'^  (\S+)(?: \[label="([^"]*)".*\])?$')
DOT_EDGE = re.compile(r'^  (\S+) -> (\S+)(?: \[label="([^"]*)"\])?')


def do_reader_op(tree, op):
    """-> decoded shape"""
    if op in ("save", "save_path"):
        yield_point("before-save")
        if op == "save":
            buf = io.StringIO()  # json.dump() writes after the lock is released: no yield points needed there
            tree.save(buf)
            doc = json.loads(buf.getvalue())
        else:
            # a path target (each call its own file): whatever else save() synchronises on must not deadlock either
            fd, path = tempfile.mkstemp(prefix="verif_c18_", suffix=".nutree")
            os.close(fd)
            try:
                tree.save(path)
                with open(path, encoding="utf8") as fp:
                    doc = json.load(fp)
            finally:
                try:
                    os.unlink(path)
                except OSError:
                    pass
        nodes = [None]
        top = []
        kids = {0: top}
        vm = doc["meta"].get("$value_map", {}).get("kind")
        for i, (p, payload) in enumerate(doc["nodes"], 1):
            if isinstance(payload, str):
                name = payload
            elif isinstance(payload, int):
                name = nodes[payload][0]
            else:
                name = payload.get("str", payload.get("s"))
                k = payload.get("kind", payload.get("k"))
                if isinstance(k, int) and vm is not None and not (0 <= k < len(vm)):
                    name = f"{name}:<kind index out of range>"
            n = [name, []]
            nodes.append(n)
            kids[i] = n[1]
            kids[p].append(n)
        return top
    if op == "copy":
        return tshape(tree.copy())
    if op == "copy_pred":
        return tshape(tree.copy(predicate=sel_pred))
    if op == "filtered":
        return tshape(tree.filtered(sel_pred))
    if op == "copy_to":
        other = TypedTree("O") if isinstance(tree, TypedTree) else Tree("O")
        tree.copy_to(other)
        return tshape(other)
    if op == "to_dotfile_format":
        # to_dotfile(<path>, format="plain"): Graphviz' line format lists nodes (id, label) and edges (tail, head)
        tmp = tempfile.mkdtemp(prefix="verif_c18_")
        try:
            path = os.path.join(tmp, "out.plain")
            yield_point("before-dotfile")
            tree.to_dotfile(path, format="plain", unique_nodes=False)
            with open(path) as fp:
                lines = fp.read().split("\n")
        finally:
            shutil.rmtree(tmp, ignore_errors=True)
        labels, kids = {}, {}
        for ln in lines:
            tok = ln.split(" ")
            if tok[0] == "node":
                labels[tok[1]] = tok[6]
            elif tok[0] == "edge":
                kids.setdefault(tok[1], []).append(tok[2])

        def sub(key):
            return sorted([labels.get(c, "?"), sub(c)] for c in kids.get(key, []))

        return ["__unordered__", sub("0")]
    if op == "copy_to_shallow":
        other = TypedTree("O") if isinstance(tree, TypedTree) else Tree("O")
        yield_point("before-copy_to")
        tree.copy_to(other, deep=False)
        return ["__toplevel-only__", [lab(n) for n in other.children]]
    if op == "to_dict_list":
        lst = tree.to_dict_list(mapper=y_mapper)

        def conv(items):
            return [[d["data"], conv(d.get("children", []))] for d in items]

        return conv(lst)
    if op in ("to_dotfile", "to_dotfile_path"):
        if op == "to_dotfile":
            buf = YieldIO()
            tree.to_dotfile(buf, unique_nodes=False, node_mapper=y_mapper)
            text = buf.getvalue()
        else:
            fd, path = tempfile.mkstemp(prefix="verif_c18_", suffix=".gv")
            os.close(fd)
            try:
                yield_point("before-dotfile")
                tree.to_dotfile(path, unique_nodes=False, node_mapper=y_mapper)
                with open(path) as fp:
                    text = fp.read()
            finally:
                try:
                    os.unlink(path)
                except OSError:
                    pass
        labels, edges, section = {}, [], None
        for ln in text.split("\n"):
            if "# Node Definitions" in ln:
                section = "n"
            elif "# Edge Definitions" in ln:
                section = "e"
            elif section == "n":
                m = DOT_NODE.match(ln)
                if m:
                    labels[m.group(1)] = m.group(2)
            elif section == "e":
                m = DOT_EDGE.match(ln)
                if m:
                    edges.append((m.group(1), m.group(2), m.group(3)))
        nodes = {k: [v, []] for k, v in labels.items()}
        top = []
        for p, c, kind in edges:
            if c not in nodes:
                return [["<edge to undefined node>", []]]
            (top if p == "0" else nodes[p][1] if p in nodes else top).append(nodes[c])
        return top
    if op == "with+iterate":
        with tree:
            out = []
            stack = {0: out}
            for n in tree:
                yield_point("iter")
                d = n.depth()
                item = [lab(n), []]
                stack[d - 1].append(item)
                stack[d] = item[1]
            return out
    raise AssertionError(op)


def agrees(res, state):
    """does the snapshot `res` show the committed state `state`? (a shallow copy shows its top level only)"""
    if isinstance(res, list) and len(res) == 2 and res[0] == "__toplevel-only__":
        return res[1] == [n[0] for n in state]
    if isinstance(res, list) and len(res) == 2 and res[0] == "__unordered__":
        def norm(sh):
            return sorted([n[0], norm(n[1])] for n in sh)

        return res[1] == norm(state)
    return res == state


def run_program(program, schedule):
    """-> (violations list, info)"""
    tree = base_tree(program.get("typed", False), program.get("big", 0))
    committed = [tshape(tree)]
    results = []
    S = Sched(schedule)

    def writer(wi, sections):
        def fn():
            for k, sec in enumerate(sections):
                run_section(tree, sec["kind"], f"w{wi}s{k}", committed, sec.get("nest"), sec.get("inner"))
                yield_point("between-sections")

        return fn

    def reader(ri, ops):
        def fn():
            for op in ops:
                j0 = len(committed) - 1
                try:
                    res = do_reader_op(tree, op)
                    err = None
                except Exception as e:  # noqa: BLE001
                    res, err = None, e
                j1 = len(committed) - 1
                results.append((op, j0, j1, res, err))
                yield_point("between-ops")

        return fn

    for wi, sections in enumerate(program["writers"]):
        S.spawn(f"W{wi}", writer(wi, sections))
    for ri, ops in enumerate(program["readers"]):
        S.spawn(f"R{ri}", reader(ri, ops))
    S.run()
    v = []
    if S.problem:
        v.append((S.problem, {"log": S.log[-12:]}))
    for t in S.threads:
        if t.exc is not None:
            v.append((f"thread-exception:{type(t.exc).__name__}", repr(t.exc)[:200]))
    for op, j0, j1, res, err in results:
        if err is not None:
            v.append((f"snapshot-raised:{op}:{type(err).__name__}", repr(err)[:200]))
        elif not any(agrees(res, committed[j]) for j in range(j0, min(j1, len(committed) - 1) + 1)):
            v.append((f"torn-or-stale-snapshot:{op}", {"snapshot": res, "committed": committed[j0 : j1 + 1]}))
    blocked = sum(t.times_blocked for t in S.threads)
    return v, {"blocked": blocked, "trace": S.trace, "choices": S.choices, "decisions": len(S.trace)}


def run_random(case, rec):
    v, info = run_program(case["program"], case["schedule"])
    rec.evals += 1
    rec.nt(info["blocked"] >= 1)
    rec.cls("blocked" if info["blocked"] else "never-blocked")
    rec.cls("typed" if case["program"].get("typed") else "plain")
    for r in case["program"]["readers"]:
        for op in r:
            rec.cls(f"op={op}")
    for bucket, detail in v[:2]:
        rec.fail(bucket, detail)
        if bucket in ("hang", "deadlock"):
            rec.stop_shard = True


def run_exhaustive(case, rec):
    """all schedules of a small program"""
    import time

    program = case["program"]
    sched = []
    n = blocked_runs = 0
    limit = case.get("limit", 20000)
    t_end = time.time() + case.get("seconds", 600)  # budget only: reaching it is "inconclusive", never a violation
    while sched is not None and n < limit and time.time() < t_end:
        v, info = run_program(program, sched)
        n += 1
        if info["blocked"]:
            blocked_runs += 1
        if v:
            rec.fail(v[0][0], {"schedule": info["choices"], "detail": v[0][1]})
            if v[0][0] in ("hang", "deadlock"):
                rec.stop_shard = True
            break
        sched = next_schedule(info["choices"], info["trace"])
    rec.evals += n
    rec.cls(f"schedules-enumerated={'all' if sched is None else 'stopped-at-limit-or-budget'}")
    rec.nt(blocked_runs >= 1)


# ---- real lock, no scheduler ------------------------------------------------------------------
def run_real_special(case, rec):
    """Two timing situations of the real lock that the scheduler's lock model cannot show:
    first-use: the writer's first `with tree:` and the reader's first snapshot on a brand-new tree start together
               (lock construction is slowed down, which is harmless when the lock exists before the tree is shared);
    long-hold: the writer stays inside `with tree:` for several seconds; the reader must keep waiting."""
    mode, op = case["mode"], case["op"]
    rec.evals += 1
    rec.nt(True)
    rec.cls(f"mode={mode}")
    orig_rlock = threading.RLock
    if mode == "first-use":
        def slow_rlock(*a, **kw):
            time.sleep(0.05)
            return orig_rlock(*a, **kw)

        threading.RLock = slow_rlock
    try:
        tree = Tree("T")
        tree.add("base1").add("b1a")
        tree.add("base2")
        committed = [tshape(tree)]
        go = threading.Barrier(2)
        out = {}
        hold = 7.0 if mode == "long-hold" else 0.4

        def owner():
            go.wait(10)
            with tree:
                x = tree.add("wa")
                time.sleep(hold)
                x.add("wb")
                committed.append(tshape(tree))

        def reader():
            go.wait(10)
            time.sleep(0.02 if mode == "first-use" else 0.3)
            try:
                out["res"] = do_reader_op(tree, op)
            except Exception as e:  # noqa: BLE001
                out["err"] = e

        to, tr = threading.Thread(target=owner, daemon=True), threading.Thread(target=reader, daemon=True)
        to.start()
        tr.start()
        to.join(120)
        tr.join(30)
    finally:
        threading.RLock = orig_rlock
    if to.is_alive() or tr.is_alive():
        rec.fail(f"real-lock:{mode}:deadlock:{op}", {"owner_alive": to.is_alive(), "reader_alive": tr.is_alive()})
        rec.stop_shard = True
        return
    if "err" in out:
        rec.fail(f"real-lock:{mode}:snapshot-raised:{op}", repr(out["err"])[:200])
    elif not any(agrees(out.get("res"), c) for c in committed):
        rec.fail(f"real-lock:{mode}:torn-snapshot:{op}", {"snapshot": out.get("res"), "committed": committed})


class _Boom(Exception):
    pass


# ways in which a thread leaves the tree lock by an exception (the lock must be free afterwards)
LEAVE_BY_EXCEPTION = ["with:KeyError(404)", "with:OSError(2,'x')", "with:ValueError()", "with:StopTraversal(5)", "with:SystemExit(3)", "with:nested",
                      "copy_to:collision", "node.copy_to:collision", "save:mapper-raises", "to_dict_list:mapper-raises", "copy:predicate-raises",
                      "filtered:predicate-raises", "to_dotfile:mapper-raises", "save:unwritable-path", "add(tree):collision"]


def _leave_by_exception(tree, how):
    """-> the exception that left the critical section / the snapshot operation"""
    from nutree import StopTraversal

    def boom(*a, **kw):
        raise _Boom(17)

    try:
        if how.startswith("with:"):
            what = how[5:]
            if what == "nested":
                with tree:
                    with tree:
                        raise KeyError(404)
            exc = {"KeyError(404)": KeyError(404), "OSError(2,'x')": OSError(2, "x"), "ValueError()": ValueError(), "StopTraversal(5)": StopTraversal(5),
                   "SystemExit(3)": SystemExit(3)}[what]
            with tree:
                raise exc
        elif how == "copy_to:collision":
            other = Tree("O")
            other.add("base2")
            tree.copy_to(other)
        elif how == "node.copy_to:collision":
            other = Tree("O")
            other.add("b1a")
            tree.first_child().copy_to(other, add_self=False)
        elif how == "add(tree):collision":
            other = Tree("O")
            other.add("base2")
            other.add(tree)
        elif how == "save:mapper-raises":
            tree.save(io.StringIO(), mapper=boom)
        elif how == "to_dict_list:mapper-raises":
            tree.to_dict_list(mapper=boom)
        elif how == "copy:predicate-raises":
            tree.copy(predicate=boom)
        elif how == "filtered:predicate-raises":
            tree.filtered(boom)
        elif how == "to_dotfile:mapper-raises":
            tree.to_dotfile(io.StringIO(), node_mapper=boom)
        elif how == "save:unwritable-path":
            tree.save("/nonexistent-dir-verif/x.nutree")
    except BaseException as e:  # noqa: BLE001  (SystemExit is one of the ways)
        return e
    return None


def run_after_exception(case, rec):
    """A thread leaves `with tree:` (or a snapshot operation, which takes the lock internally) by an exception;
    afterwards another thread must get the lock: its snapshot returns, with the one committed state."""
    how, op = case["how"], case["op"]
    rec.evals += 1
    rec.nt(True)
    rec.cls("mode=after-exception")
    tree = Tree("T")
    tree.add("base1").add("b1a")
    tree.add("base2")
    committed = tshape(tree)
    out = {}

    left = threading.Event()
    finish = threading.Event()

    def first():
        out["exc"] = _leave_by_exception(tree, how)
        left.set()
        # stays alive while the second thread runs: a new thread may get the ident of a finished one, and an RLock
        # that was never released would then take the newcomer for its owner
        finish.wait(300)

    def second():
        try:
            out["res"] = do_reader_op(tree, op)
        except Exception as e:  # noqa: BLE001
            out["err"] = e

    t1 = threading.Thread(target=first, daemon=True)
    t1.start()
    left.wait(60)
    if "exc" not in out:
        rec.fail(f"real-lock:after-exception:first-thread-hangs:{how}", None)
        rec.stop_shard = True
        return
    if out["exc"] is None:
        rec.cls("no-exception:" + how)  # (the call is expected to raise; nothing to observe otherwise)
    t2 = threading.Thread(target=second, daemon=True)
    t2.start()
    t2.join(60)
    finish.set()
    if t2.is_alive():
        rec.fail(f"real-lock:lock-still-held-after:{how.split(':')[0]}-left-by-exception", {"how": how, "exception": repr(out["exc"])[:120], "then": op})
        rec.stop_shard = True
        return
    if "err" in out:
        rec.fail(f"real-lock:after-exception:snapshot-raised:{op}", repr(out["err"])[:200])
    elif not agrees(out.get("res"), committed):
        rec.fail(f"real-lock:after-exception:snapshot-differs:{op}", {"snapshot": out.get("res"), "committed": committed, "how": how})


MID_OPS = ["to_dict_list:mapper", "save:mapper", "copy:predicate", "filtered:predicate", "to_dotfile:node_mapper"]


def run_reader_first(case, rec):
    """The reader is FIRST: its snapshot operation (one with a user callback) is in the middle of the tree when a
    writer arrives.  The callback gives the writer 0.3 s to get in - which it cannot, if the operation holds the lock
    for the whole snapshot; the result must be the state before or after the writer's section, never a mix.
    With `twin`: the reader is meanwhile inside `with other:` of ANOTHER tree that carries the same name."""
    op = case["op"]
    rec.evals += 1
    rec.nt(True)
    rec.cls("mode=reader-first" + ("+twin" if case.get("twin") else ""))
    tree = Tree("T")
    a = tree.add("base1")
    a.add("b1a")
    for i in range(6):
        tree.add(f"m{i}")
    tree.add("base2").add("b2a")
    committed = [tshape(tree)]
    twin = Tree("T")  # same name, unrelated
    twin.add("unrelated")
    calls = [0]
    mid = threading.Event()
    done = threading.Event()

    def pause():
        calls[0] += 1
        if calls[0] == 4:
            mid.set()
            done.wait(0.3)  # the writer's window

    def mapper(node, data):
        pause()
        return None

    def pred(node):
        pause()
        return SelectBranch()  # (keeps the branch without the duplicate of known finding D11)

    out = {}

    def reader():
        try:
            if op == "to_dict_list:mapper":
                res = tree.to_dict_list(mapper=mapper)
                out["res"] = [[d["data"], _kids(d)] for d in res]
            elif op == "save:mapper":
                buf = io.StringIO()
                tree.save(buf, mapper=mapper)
                doc = json.loads(buf.getvalue())
                nodes, top, kids = [None], [], {0: None}
                kids[0] = top
                for i, (p_, payload) in enumerate(doc["nodes"], 1):
                    name = payload if isinstance(payload, str) else (nodes[payload][0] if isinstance(payload, int) else payload.get("str", payload.get("s")))
                    n_ = [name, []]
                    nodes.append(n_)
                    kids[i] = n_[1]
                    kids[p_].append(n_)
                out["res"] = top
            elif op == "copy:predicate":
                out["res"] = tshape(tree.copy(predicate=pred))
            elif op == "filtered:predicate":
                out["res"] = tshape(tree.filtered(pred))
            else:
                buf = io.StringIO()
                tree.to_dotfile(buf, node_mapper=mapper, unique_nodes=False)
                out["res"] = "dot:" + str(sum(1 for ln in buf.getvalue().split("\n") if "->" in ln))
        except Exception as e:  # noqa: BLE001
            out["err"] = e

    def reader_in_twin():
        with twin:
            reader()

    def writer():
        mid.wait(30)
        with tree:
            # front and end change in one section
            tree.add("w-front", before=True)
            tree.first_child().add("w-child")
            tree.add("w-end")
            committed.append(tshape(tree))
        done.set()

    tr = threading.Thread(target=reader_in_twin if case.get("twin") else reader, daemon=True)
    tw = threading.Thread(target=writer, daemon=True)
    tr.start()
    tw.start()
    tr.join(60)
    tw.join(60)
    if tr.is_alive() or tw.is_alive():
        rec.fail(f"real-lock:reader-first:deadlock:{op}", {"reader_alive": tr.is_alive(), "writer_alive": tw.is_alive()})
        rec.stop_shard = True
        return
    if "err" in out:
        rec.fail(f"real-lock:reader-first:snapshot-raised:{op}", repr(out["err"])[:200])
        return
    res = out.get("res")
    if isinstance(res, str):
        # DOT: the number of edges (one per node incl. the root's children) of a committed state
        ok = any(res == "dot:" + str(_count(c)) for c in committed)
    else:
        ok = any(agrees(res, c) for c in committed)
    if not ok:
        rec.fail(f"real-lock:reader-first:torn-snapshot:{op}", {"snapshot": res, "committed": committed})


def _kids(d):
    return [[c["data"], _kids(c)] for c in d.get("children", [])]


def _count(shape_):
    return sum(1 + _count(k) for _n, k in shape_)


def run_real(case, rec):
    """The owner nests `with tree:` and calls every snapshot operation inside;
    a second thread started meanwhile must come back with a committed state."""
    if case.get("mode") == "after-exception":
        return run_after_exception(case, rec)
    if case.get("mode") == "reader-first":
        return run_reader_first(case, rec)
    if case.get("mode"):
        return run_real_special(case, rec)
    op = case["op"]
    tree = Tree("T")  # plain Tree with its real RLock
    a = tree.add("base1")
    a.add("b1a")
    tree.add("base2")
    committed = [tshape(tree)]
    in_section = threading.Event()
    reader_started = threading.Event()
    out = {}

    def owner():
        with tree:
            x = tree.add("wa")
            in_section.set()
            reader_started.wait(5)
            time.sleep(0.05)  # let the reader reach the point at which it has to wait for the owner
            with tree:  # re-entrant
                do_reader_op(tree, case["inner"])  # must not deadlock
            for _ in range(case.get("spin", 50)):
                tree.find_first("base1")
            x.add("wb")
            committed.append(tshape(tree))

    def reader():
        in_section.wait(5)
        reader_started.set()
        try:
            out["res"] = do_reader_op(tree, op)
        except Exception as e:  # noqa: BLE001
            out["err"] = e

    to, tr = threading.Thread(target=owner, daemon=True), threading.Thread(target=reader, daemon=True)
    to.start()
    tr.start()
    # generous: a loaded machine must not turn into a deadlock report (the operations take milliseconds)
    to.join(120)
    tr.join(30)
    rec.evals += 1
    rec.nt(True)
    rec.cls(f"op={op}")
    if to.is_alive() or tr.is_alive():
        rec.fail(f"real-lock:deadlock:{op}", {"owner_alive": to.is_alive(), "reader_alive": tr.is_alive(), "inner": case["inner"]})
        rec.stop_shard = True  # every further case would wait for the watchdog again
        return
    if "err" in out:
        rec.fail(f"real-lock:snapshot-raised:{op}", repr(out["err"])[:200])
    elif not any(agrees(out.get("res"), c) for c in committed):
        rec.fail(f"real-lock:torn-snapshot:{op}", {"snapshot": out.get("res"), "committed": committed})


# ------------------------------------------------------------------------------------------------
def enum_cases(tier):
    kinds = ["pair", "rebuild"] if tier == "quick" else SECTIONS
    for kind in kinds:
        for op in READER_OPS:
            if tier == "quick" and kind == "rebuild" and op not in ("to_dict_list", "save", "copy_to_shallow"):
                continue
            yield {"program": {"writers": [[{"kind": kind}]], "readers": [[op]]}, "limit": 4000 if tier == "quick" else 100000}
    # a tree of several hundred nodes (operations without per-node callbacks: atomic for the scheduler unless the
    # operation itself lets go of the lock in between)
    for op in (["save", "copy", "copy_to_shallow"] if tier == "quick" else ["save", "save_path", "copy", "copy_to", "copy_to_shallow", "to_dotfile_path"]):
        for big in ([300] if tier == "quick" else [130, 300, 700]):
            yield {"program": {"big": big, "writers": [[{"kind": "ends"}]], "readers": [[op]]}, "limit": 400 if tier == "quick" else 20000}
            if tier == "thorough":
                yield {"program": {"big": big, "typed": True, "writers": [[{"kind": "ends"}]], "readers": [[op]]}, "limit": 20000}
    # typed trees: the writer introduces a kind that no committed node had before
    for op in (["save"] if tier == "quick" else READER_OPS):
        yield {"program": {"typed": True, "writers": [[{"kind": "pair"}]], "readers": [[op]]}, "limit": 4000 if tier == "quick" else 100000}
    if tier == "thorough":
        for op in READER_OPS:
            yield {"program": {"writers": [[{"kind": "pair"}, {"kind": "rebuild"}]], "readers": [[op]]}, "limit": 50000}
            yield {"program": {"writers": [[{"kind": "pair", "nest": True, "inner": op}]], "readers": [[op]]}, "limit": 50000}


def real_cases(tier):
    for op in MID_OPS:
        yield {"mode": "reader-first", "op": op}
    for op in (MID_OPS[:2] if tier == "quick" else MID_OPS):
        yield {"mode": "reader-first", "op": op, "twin": True}
    for i, how in enumerate(LEAVE_BY_EXCEPTION):
        for op in ([["to_dict_list", "save", "with+iterate"][i % 3]] if tier == "quick" else ["to_dict_list", "save", "copy", "with+iterate", "copy_to"]):
            yield {"mode": "after-exception", "how": how, "op": op}
    for op in (["to_dict_list", "save", "copy"] if tier == "quick" else READER_OPS):
        yield {"mode": "first-use", "op": op}
    for op in (["to_dict_list"] if tier == "quick" else ["to_dict_list", "save", "copy", "with+iterate"]):
        yield {"mode": "long-hold", "op": op}
    for op in READER_OPS:
        for inner in (READER_OPS if tier == "thorough" else [op, "copy"]):
            yield {"op": op, "inner": inner}


@st.composite
def hyp_cases(draw, tier):
    sec = st.fixed_dictionaries({"kind": st.sampled_from(SECTIONS)}, optional={"nest": st.just(True), "inner": st.sampled_from(READER_OPS)})
    writers = draw(st.lists(st.lists(sec, min_size=1, max_size=3), min_size=1, max_size=2))
    readers = draw(st.lists(st.lists(st.sampled_from(READER_OPS), min_size=1, max_size=3), min_size=1, max_size=3))
    schedule = draw(st.lists(st.sampled_from([0, 1, 2, 3, 4]), min_size=40, max_size=120))
    prog = {"writers": writers, "readers": readers}
    if draw(st.sampled_from([0, 0, 1])):
        prog["typed"] = True
    return {"program": prog, "schedule": schedule}


# (what round 8 added to the case domain; part of the evidence text)
RULE_ROUND8 = " Real-lock part, mode after-exception: a thread leaves `with tree:` by KeyError(404) / OSError(2,'x') / ValueError() / StopTraversal(5) / SystemExit(3) / from a nested section, or a snapshot operation raises (colliding copy_to / add(tree), raising mapper / predicate, unwritable path); the thread stays alive and a second thread must then complete its snapshot with the committed state. Exhaustive part: a 300-node tree (thorough: 130 / 300 / 700, plain and typed) with a writer section that changes the front AND the end of the tree, against save / copy / copy_to(deep=False) (thorough: also save(path), copy_to, to_dotfile(path))."
RULE = RULE + RULE_ROUND8

RULE_ROUND9 = " Real-lock mode reader-first: a snapshot operation with a user callback (to_dict_list / save / to_dotfile mapper, copy / filtered predicate) is in the middle of the tree when the writer arrives (the callback waits 0.3 s for it); the result is the state before or after the writer's section. With twin: the reader is meanwhile inside `with other:` of another tree of the same name."
RULE = RULE + RULE_ROUND9

PARTS = [
    Part("all-schedules", run_exhaustive, enum=enum_cases, watchdog=3600),
    Part("random-programs", run_random, strategy=hyp_cases, n={"quick": 100, "thorough": 20000}, watchdog=600),
    Part("real-lock", run_real, enum=real_cases, watchdog=600),
]
