"""C08 - filtering keeps exactly the accepted nodes and their ancestors (DESIGN section 3, C08)."""

from __future__ import annotations

import itertools

from hypothesis import strategies as st

from vlib import enumer, gen
from vlib.build import build
from vlib.core import Part, optimized_part
from vlib.observe import Uids, snapshot, walk

from nutree import SelectBranch, SkipBranch, StopTraversal, Tree

ID = "C08"
LEVEL = "exploration"
TECHNIQUE = 'bounded-exhaustive verdict assignments + Hypothesis against a reference filter written from the documentation'
LEVEL_TEXT = 'exploration with an exhaustive part: all 7^n verdict assignments on all forests up to the bound, in-place and copying forms, tree and branch; the known finding D11 is handled by a defect model that is armed only while its witness still fails'
RULE = (
    "case = (forest, verdict per node from {True, False, None, SkipBranch, SkipBranch(and_self=False), SelectBranch, "
    "StopTraversal}, returned-or-raised form, start = tree or branch). Exhaustive part: every forest with <= N nodes x "
    "all 7^n verdict assignments x {all returned, all raised}; Hypothesis part: larger trees with clones, per-node "
    "forms. Oracle: reference filter written from the documentation; in-place result must be the same node objects "
    "in original order, copy forms (filtered, copy(predicate=)) new nodes on the same data with the source "
    "unchanged, predicate call sequence identical (nothing called below skip/select). Non-trivial: a True below a "
    "False/None and at least one control verdict; distinct = distinct case."
)
ASSUMPTIONS = [
    "control values are returned as instances or raised (class or instance); returning the bare class from a predicate is not generated",
    "in place + stop signal: only the weaker reading is asserted (accepted-so-far nodes and their ancestors stay, nothing foreign appears, tree stays well-formed)",
    "Node.filtered()/Node.copy(add_self=True) always contain the start node itself",
]
EXHAUSTIVE_NOTE = {"quick": "forests <= 4 nodes x 7^n verdicts x 2 forms x {tree, first branch}", "thorough": "forests <= 5 nodes x 7^n verdicts x 2 forms x {tree, first branch}; forests with 6 nodes x 7^6 verdicts (returned form, tree level)"}

VERDICTS = ["T", "F", "N", "S", "S0", "B", "X"]


class MySkip(SkipBranch):
    """application-defined control values (subclasses of the library's): honoured like their base classes"""


class MySkipKeepSelf(SkipBranch):
    def __init__(self):
        super().__init__(and_self=False)


class MySelect(SelectBranch):
    pass


class MyStop(StopTraversal):
    pass


def make_signal(v, raised):
    """-> (value_to_return, exception_to_raise); raised: 0 returned, 1 raised, 2 the class itself raised,
    3 StopIteration, 4 / 5 an instance of an application-defined subclass returned / raised"""
    if raised in (4, 5) and v in ("S", "S1", "S0", "B", "X"):
        obj = {"S": MySkip, "S0": MySkipKeepSelf, "B": MySelect, "X": MyStop}[v]() if v != "S1" else MySkip(and_self=True)
        return (obj, None) if raised == 4 else (None, obj)
    if raised in (4, 5):
        raised = raised - 4
    if v == "T":
        return True, None
    if v == "F":
        return False, None
    if v == "N":
        return None, None
    if v == "S":
        obj = SkipBranch() if raised != 2 else SkipBranch
    elif v == "S1":
        obj = SkipBranch(and_self=True)
    elif v == "S0":
        obj = SkipBranch(and_self=False)
    elif v == "B":
        obj = SelectBranch() if raised != 2 else SelectBranch
    elif v == "X":
        if raised == 3:
            return None, StopIteration()
        obj = StopTraversal() if raised != 2 else StopTraversal
    else:
        raise AssertionError(v)
    return (None, obj) if raised else (obj, None)


class Stop(Exception):
    pass


def reference(kids, roots, verdict_of):
    """-> (kept, calls, stopped); kept = nested [(node, kept_children)]"""
    calls = []
    state = {"stopped": False}

    def full(nodes):
        return [(n, full(kids[id(n)])) for n in nodes]

    def visit(nodes):
        out = []
        for n in nodes:
            if state["stopped"]:
                break
            v = verdict_of(n)
            calls.append(n)
            if v == "X":
                state["stopped"] = True
                break
            if v == "T":
                out.append((n, visit(kids[id(n)])))
            elif v in ("F", "N"):
                sub = visit(kids[id(n)])
                if sub:
                    out.append((n, sub))
            elif v in ("S", "S1"):
                pass
            elif v == "S0":
                out.append((n, []))
            elif v == "B":
                out.append((n, full(kids[id(n)])))
        return out

    return visit(roots), calls, state["stopped"]


def with_d11(kept, verdict_of):
    """Defect model of known finding D11: every node accepted by True or
    SkipBranch(and_self=False) gets a leaf copy of itself as first child."""
    out = []
    for n, sub in kept:
        if verdict_of(n) == "B":
            out.append((n, sub))  # whole branch copied without calling the predicate
            continue
        sub2 = with_d11(sub, verdict_of)
        if verdict_of(n) in ("T", "S0"):
            sub2 = [(n, "DUP")] + sub2
        out.append((n, sub2))
    return out


def kept_view(kept):
    return [[n.data, n.data_id, [] if sub == "DUP" else kept_view(sub)] for n, sub in kept]


def kept_ids(kept):
    out = []
    for n, sub in kept:
        out.append(id(n))
        if sub != "DUP":
            out.extend(kept_ids(sub))
    return out


def tree_view(w, roots):
    return [[n.data, n.data_id, tree_view(w, w.kids[id(n)])] for n in roots]


def ident_view(w, roots):
    return [[id(n), ident_view(w, w.kids[id(n)])] for n in roots]


def kept_ident(kept):
    return [[id(n), kept_ident(sub)] for n, sub in kept]


def d11_collision(kept, verdict_of):
    """D11's duplicate collides (UniqueConstraintError) when an accepted node
    keeps a child carrying its own data_id."""
    for n, sub in kept:
        if verdict_of(n) == "B":
            continue
        if verdict_of(n) in ("T", "S0") and any(c.data_id == n.data_id for c, _ in sub):
            return True
        if d11_collision(sub, verdict_of):
            return True
    return False


def run(case, rec):
    spec = case["spec"]
    verdicts = case["verdicts"]  # list per pre-order index
    forms = case.get("forms")  # None | int (global) | list
    start_i = case.get("start", -1)

    typed = bool(case.get("typed"))

    def setup():
        tree, nodes = build(spec, typed=typed)
        vmap = {id(n): verdicts[i % len(verdicts)] if verdicts else "T" for i, n in enumerate(nodes)}
        fmap = {}
        for i, n in enumerate(nodes):
            fmap[id(n)] = forms if isinstance(forms, int) else (forms[i % len(forms)] if forms else 0)
        return tree, nodes, vmap, fmap

    def make_pred(vmap, fmap, calls):
        def pred(node):
            calls.append(node)
            val, exc = make_signal(vmap[id(node)], fmap[id(node)])
            if exc is not None:
                raise exc
            return val

        return pred

    # ---- reference on the pristine tree ----------------------------------------------------
    tree, nodes, vmap, fmap = setup()
    w = walk(tree)
    start = None if start_i < 0 or not nodes else nodes[start_i % len(nodes)]
    roots = w.kids[id(None)] if start is None else w.kids[id(start)]
    vof = lambda n: vmap[id(n)]  # noqa: E731
    kept, ref_calls, stopped = reference(w.kids, roots, vof)
    vs = [vmap[id(n)] for n in ref_calls]
    rec.nt(any(v in ("S", "S0", "S1", "B", "X") for v in vs) and _true_below_falsy(w, roots, vof))
    rec.cls("stop" if stopped else "no-stop")
    rec.cls("start=tree" if start is None else "start=branch")
    if typed:
        rec.cls("typed")
    for v in set(vs):
        rec.cls(f"verdict={v}")

    # ---- (b) copying forms (source must stay unchanged) ----------------------------------------
    u = Uids()
    # (some source nodes carry annotations: the copy may show them or not, but it never shares them)
    for i, n_ in enumerate(walk(tree).pre):
        if i % 2 == 0:
            n_.set_meta("note", i)
    before = snapshot(tree, u)
    for form_name in ("filtered", "copy(predicate)", "copy(add_self=False,predicate)"):
        if form_name == "copy(add_self=False,predicate)" and start is None:
            continue  # the tree-level copy has no add_self option
        calls = []
        pred = make_pred(vmap, fmap, calls)
        rec.evals += 1
        known = rec.known("D11")
        if known and d11_collision(kept, vof):
            rec.excl("D11:duplicate-collides-with-kept-child")
            continue
        if start is None:
            res = tree.filtered(pred) if form_name == "filtered" else tree.copy(predicate=pred)
        elif form_name == "copy(add_self=False,predicate)":
            res = start.copy(add_self=False, predicate=pred)
        else:
            res = start.filtered(pred) if form_name == "filtered" else start.copy(predicate=pred)
        if snapshot(tree, u) != before:
            rec.fail("copy-form:source-modified", form_name)
            return
        if not isinstance(res, Tree) or res is tree or type(res) is not type(tree):
            rec.fail("copy-form:result-class", repr(res))
            return
        w2 = walk(res)
        if w2.problems or res.count != len(w2.pre):
            rec.fail("copy-form:result-malformed", [w2.problems, res.count, len(w2.pre)])
            return
        # the copy is a tree of its own: annotating its nodes does not show in the source
        for n_ in w2.pre:
            n_.set_meta("note", "changed-in-the-copy")
            n_.set_meta("extra", 1)
        if snapshot(tree, u) != before:
            rec.fail("copy-form:source-changed-by-annotating-the-copy", form_name)
            return
        got_roots = w2.kids[id(None)]
        if start is not None and form_name != "copy(add_self=False,predicate)":
            # start node itself is always part of a branch copy
            if len(got_roots) != 1 or got_roots[0].data is not start.data:
                rec.fail("copy-form:branch-root", tree_view(w2, got_roots))
                return
            got_roots = w2.kids[id(got_roots[0])]
        got = tree_view(w2, got_roots)
        exp = kept_view(kept)
        if got != exp:
            exp_d = kept_view(with_d11(kept, vof))
            if known and got == exp_d:
                rec.excl("D11")
            else:
                rec.fail("copy-form:result" + (":stop" if stopped else ""), {"form": form_name, "got": got, "exp": exp, "verdicts": vs})
                return
        # new nodes on the same data objects
        src_by_data = {id(n.data) for n in w.pre}
        if any(id(n.data) not in src_by_data for n in w2.pre) or any(id(n) in {id(x) for x in w.pre} for n in w2.pre):
            rec.fail("copy-form:nodes-not-new-or-data-not-shared", form_name)
        if [id(c) for c in calls] != [id(c) for c in ref_calls]:
            rec.fail("copy-form:predicate-call-sequence", {"got": [c.data for c in calls], "exp": [c.data for c in ref_calls], "verdicts": vs})
            return

    # ---- (a) in place ---------------------------------------------------------------------------
    calls = []
    pred = make_pred(vmap, fmap, calls)
    rec.evals += 1
    all_before = {id(n) for n in w.pre}
    if start is None:
        tree.filter(pred)
    else:
        start.filter(pred)
    w3 = walk(tree)
    if w3.problems or tree.count != len(w3.pre) or len(tree) != len(w3.pre):
        rec.fail("in-place:tree-malformed", [w3.problems, tree.count, len(w3.pre)])
        return
    if [id(c) for c in calls] != [id(c) for c in ref_calls]:
        rec.fail("in-place:predicate-call-sequence", {"got": [c.data for c in calls], "exp": [c.data for c in ref_calls], "verdicts": vs})
        return
    got_roots = w3.kids[id(None)] if start is None else w3.kids[id(start)]
    if not stopped:
        if ident_view(w3, got_roots) != kept_ident(kept):
            rec.fail("in-place:result", {"got": tree_view(w3, got_roots), "exp": kept_view(kept), "verdicts": vs})
            return
        if start is not None:
            # everything outside the branch untouched
            outside = [id(n) for n in w.pre if id(n) not in set(_desc_ids(w, start))]
            now = {id(n) for n in w3.pre}
            if any(i not in now for i in outside):
                rec.fail("in-place:branch-filter-removed-outside-node")
    else:
        now = {id(n) for n in w3.pre}
        missing = [i for i in kept_ids(kept) if i not in now]
        if missing:
            rec.fail("in-place:stop:accepted-node-or-ancestor-lost", {"verdicts": vs, "got": tree_view(w3, got_roots), "kept": kept_view(kept)})
        if any(i not in all_before for i in now):
            rec.fail("in-place:stop:foreign-node")
    # removed nodes must be gone from the index
    now = {id(n) for n in w3.pre}
    for n in w.pre:
        if id(n) not in now and n.tree is not None:
            rec.fail("in-place:removed-node-still-owned")
            break


def _desc_ids(w, n):
    out = []
    for c in w.kids[id(n)]:
        out.append(id(c))
        out.extend(_desc_ids(w, c))
    return out


def _true_below_falsy(w, roots, vof):
    def rec_(nodes, under_falsy):
        for n in nodes:
            v = vof(n)
            if v == "T" and under_falsy:
                return True
            if rec_(w.kids[id(n)], under_falsy or v in ("F", "N")):
                return True
        return False

    return rec_(roots, False)


def enum_cases(tier):
    nmax = 4 if tier == "quick" else 5
    for spec in enumer.forests_upto(nmax, 1):
        n = enumer.spec_size(spec)
        for assign in itertools.product(VERDICTS, repeat=n):
            for form in (0, 1):
                yield {"spec": spec, "verdicts": list(assign), "forms": form, "start": -1}
            if spec[0][1]:
                yield {"spec": spec, "verdicts": list(assign), "forms": 0, "start": 0}
    if tier == "thorough":
        # 6 nodes: all 7^6 assignments on every forest, returned form, tree level
        for spec in enumer.forests_upto(6, 6):
            for assign in itertools.product(VERDICTS, repeat=6):
                yield {"spec": spec, "verdicts": list(assign), "forms": 0, "start": -1}


@st.composite
def hyp_cases(draw, tier):
    spec = draw(gen.forest_specs(max_nodes=16, max_depth=6, max_width=4, min_nodes=3, alphabet=["a", "b", "c", "d", "e"], big=6))
    if gen.spec_nodes(spec) <= 40 and draw(st.sampled_from([0, 1])):
        # equal-comparing siblings: the data of an earlier sibling under another explicit data_id
        counter = [0]

        def eq_(nodes):
            for j, nd in enumerate(nodes):
                if j > 0 and draw(st.sampled_from([0, 0, 1])):
                    nd[0] = nodes[draw(st.integers(0, j - 1))][0]
                    counter[0] += 1
                    del nd[2:]
                    nd.append({"id": f"E{counter[0]}"})
                eq_(nd[1])

        eq_(spec)
    n = gen.spec_nodes(spec)
    pool = draw(st.sampled_from([VERDICTS + ["S1"], ["T", "F", "N", "S", "B"], ["T", "F", "S0"], ["T", "F", "N", "N", "F", "X"], ["T", "F"]]))
    if n > 40:
        # a big tree: most of the many siblings get the same verdict (so that many nodes go, or stay, below one
        # parent), the inner nodes and a few leaves get generated ones
        base = draw(st.sampled_from(["F", "F", "N", "T", "S"]))
        verdicts = [base] * n
        inner = []
        counter = [0]

        def find_inner(nodes):
            for nd in nodes:
                if nd[1]:
                    inner.append(counter[0])
                counter[0] += 1
                find_inner(nd[1])

        find_inner(spec)
        for i in inner[:12] + draw(st.lists(st.integers(0, n - 1), max_size=6)):
            verdicts[i] = draw(st.sampled_from(pool))
        f0 = draw(st.sampled_from([0, 1, 2, 3, 4, 5]))
        forms = [f0] * n
    else:
        verdicts = draw(st.lists(st.sampled_from(pool), min_size=n, max_size=n))
        forms = draw(st.lists(st.sampled_from([0, 1, 2, 3, 4, 5]), min_size=n, max_size=n))
    start = draw(st.sampled_from([-1, -1, 0, 1, 2, 3]))
    case = {"spec": spec, "verdicts": verdicts, "forms": forms, "start": start}
    if draw(st.sampled_from([0, 0, 1])):
        case["typed"] = True  # kinds are not compared (known finding D10a), the typed code paths are exercised

        def kinds_(nodes):  # siblings of different kinds: position among all siblings != position among those of one kind
            for nd in nodes:
                o = dict(nd[2]) if len(nd) > 2 and nd[2] else {}
                o["kind"] = draw(st.sampled_from(["child", "x", "y"]))
                del nd[2:]
                nd.append(o)
                kinds_(nd[1])

        kinds_(spec)
    return case


# (what round 8 added to the case domain; part of the evidence text)
RULE_ROUND8 = ' One random case in six filters a BIG tree: the many siblings get one common verdict (so that > 32 / 64 / 128 nodes go or stay below one parent), inner nodes and a few leaves generated ones. Verdict forms 4 / 5: instances of application-defined subclasses of SkipBranch / SelectBranch / StopTraversal, returned / raised. Part python-O: both parts with PYTHONOPTIMIZE=1.'
RULE = RULE + RULE_ROUND8

RULE_ROUND9 = " Sources carry annotations on every second node; after each copying form the copy's nodes are annotated and the source must be unchanged."
RULE = RULE + RULE_ROUND9

PARTS = [
    Part("verdicts", run, enum=enum_cases),
    Part("random-verdicts", run, strategy=lambda tier: hyp_cases(tier), n={"quick": 1000, "thorough": 150000}),
    optimized_part("C08", ['verdicts', 'random-verdicts']),
]
