"""C03 - a parent never holds two children with the same data_id (DESIGN section 3, C03)."""

from __future__ import annotations

import io
import json

from hypothesis import strategies as st

from vlib import gen, gen_ops
from vlib.core import Part, optimized_part
from vlib.invariants import sibling_unique, structural
from vlib.ops import Engine, engine_known, flush_excluded

from nutree import Tree, TypedTree, UniqueConstraintError

ID = "C03"
LEVEL = "exploration"
TECHNIQUE = 'stateful property-based testing + collision-directed generation over every API route; documents built without nutree'
LEVEL_TEXT = 'exploration: the invariant is checked after every step of random histories, and for each generated state one colliding operation per API route (17 routes) is constructed by the harness and must be refused with UniqueConstraintError; evidence lists the count per route'
RULE = (
    "part histories: op histories as in C01 (small alphabet, so collisions are frequent); after every step all child "
    "lists incl. the root's have pairwise distinct data_ids, and every op that the harness (not nutree) computes to "
    "collide must be refused with UniqueConstraintError. part routes: from a generated state the harness constructs, "
    "for EVERY route the API offers, an operation that would put a second child with an already present data_id under "
    "some parent (add equal data / explicit equal data_id, append/prepend child, prepend/append sibling, add node copy "
    "shallow+deep, copy_to, copy_to(add_self=False), add(tree), move_to of a clone, remove(keep_children) un-nesting "
    "a colliding child, rename / set_data to a sibling's data or id, set_data(with_clones=True) where another clone "
    "has such a sibling) and requires UniqueConstraintError plus an intact invariant. part documents: from_dict() and "
    "load() of documents (built without nutree) that contain duplicate siblings must raise UniqueConstraintError. "
    "Non-trivial: a colliding attempt was made; evidence lists the count per route; distinct = distinct case."
)
ASSUMPTIONS = [
    "whether an operation collides is computed by the harness from the observed data_ids, not by asking nutree",
    "data_ids are truthy",
]

ROUTES = ["copy_from2", "copy_from2:children", "add_node:cross-tree", "tree2.copy_to", "set_data:data:with_clones", "remove:keep_children:with_clones", "add", "add:explicit-id", "append_child", "prepend_child", "prepend_sibling", "append_sibling", "add_node", "add_node:deep",
          "copy_to", "copy_to:children", "add_tree", "move", "remove:keep_children", "rename", "set_data:data", "set_data:id",
          "set_data:with_clones", "add:before", "add_node:before", "copy_to:before", "move:before"]


def collision_ops(eng):
    """(route, op) pairs that collide in the current model state."""
    mt = eng.model
    pre = mt.preorder()
    idx = {id(m): i for i, m in enumerate(pre)}
    out = []
    fl = eng.fl

    def ref(m):
        return -1 if m is mt.root else idx[id(m)]

    def positions(p, c):
        """`before` values for a colliding insertion below p: before the conflicting child c itself, before the
        first child (nothing precedes the position), as the first child."""
        ci = [i for i, x in enumerate(p.children) if x is c][0]
        return [["c", ci], ["c", 0], True]

    parents = [mt.root] + pre
    for p in parents:
        for c in p.children:
            lab = fl.label(c.data)
            default_id = c.data_id == fl.auto_id(lab, c.data)
            if default_id:
                out.append(("add", ["add", ref(p), lab, None, {}]))
                for b in positions(p, c):
                    out.append(("add:before", ["add", ref(p), lab, b, {}]))
                if p is not mt.root:
                    out.append(("append_child", ["append_child", ref(p), lab, {}]))
                    out.append(("prepend_child", ["prepend_child", ref(p), lab, {}]))
                out.append(("prepend_sibling", ["prepend_sibling", ref(c), lab, {}]))
                out.append(("append_sibling", ["append_sibling", ref(c), lab, {}]))
            elif isinstance(c.data_id, (str, int)):
                out.append(("add:explicit-id", ["add", ref(p), "f" if lab != "f" else "e", None, {"id": c.data_id}]))
            # clones of c elsewhere: copy / move them into p
            for k in mt.group(c.data_id):
                if k is c or k.parent is p:
                    continue
                out.append(("add_node", ["add_node", ref(p), 0, ref(k), False, None]))
                if not mt.is_inside(p, k):
                    out.append(("add_node:deep", ["add_node", ref(p), 0, ref(k), True, None]))
                out.append(("copy_to", ["copy_to", ref(k), ref(p), True, None, False]))
                if not mt.is_inside(p, k) and not eng.typed:
                    out.append(("move", ["move", ref(k), ref(p), None]))
                for b in positions(p, c):
                    out.append(("add_node:before", ["add_node", ref(p), 0, ref(k), False, b]))
                    out.append(("copy_to:before", ["copy_to", ref(k), ref(p), True, b, False]))
                    if not mt.is_inside(p, k) and not eng.typed:
                        out.append(("move:before", ["move", ref(k), ref(p), b]))
            # a node elsewhere whose CHILD has c's id: copy_to(add_self=False) into p
            for k in pre:
                if k is p or k.parent is None:
                    continue
                if any(ch.data_id == c.data_id for ch in k.children) and k is not p:
                    out.append(("copy_to:children", ["copy_to", ref(k), ref(p), False, None, False]))
                    break
            # un-nest: sibling X of c (same parent) with a child carrying c's id
            for x in p.children:
                if x is not c and any(ch.data_id == c.data_id for ch in x.children) and not eng.typed:
                    out.append(("remove:keep_children", ["remove", ref(x), True, False]))
            # re-key a sibling to c's data / id
            for x in p.children:
                if x is c:
                    continue
                grp = mt.group(x.data_id)
                wc = None if len(grp) == 1 else False
                if default_id:
                    if isinstance(x.data, str) and len(grp) == 1 and fl.name == "str":
                        out.append(("rename", ["rename", ref(x), lab]))
                    out.append(("set_data:data", ["set_data", ref(x), lab, None, wc, False]))
                if isinstance(c.data_id, (str, int)):
                    out.append(("set_data:id", ["set_data", ref(x), None, c.data_id, wc, False]))
                # with_clones: re-key ANOTHER clone of x; x (below p) then collides with c
                for y in grp:
                    if y is not x and isinstance(c.data_id, (str, int)):
                        out.append(("set_data:with_clones", ["set_data", ref(y), None, c.data_id, True, False]))
                        if default_id:
                            out.append(("set_data:data:with_clones", ["set_data", ref(y), lab, None, True, False]))
                        break
    # un-nesting a whole clone group (also nested in each other)
    if not eng.typed:
        seen = set()
        for m in pre:
            if m.data_id in seen or len(mt.group(m.data_id)) < 2:
                continue
            seen.add(m.data_id)
            out.append(("remove:keep_children:with_clones", ["remove", ref(m), True, True]))
    # cross-tree copies from the second tree
    pre2 = eng.model2.preorder()
    for p in parents:
        ids_p = {c.data_id for c in p.children}
        if not ids_p:
            continue
        for j, k in enumerate(pre2):
            if k.data_id in ids_p:
                out.append(("copy_from2", ["copy_from2", j, ref(p), True, None, bool(j % 2)]))
                out.append(("add_node:cross-tree", ["add_node", ref(p), 1, j, bool(j % 2), None]))
            if any(ch.data_id in ids_p for ch in k.children):
                out.append(("copy_from2:children", ["copy_from2", j, ref(p), False, None, bool(j % 2)]))
        if any(t.data_id in ids_p for t in eng.model2.root.children):
            out.append(("tree2.copy_to", ["tree2_copy_to", ref(p), None]))
    # add(tree): tree2's top nodes vs children of some parent
    tops2 = {t.data_id for t in eng.model2.root.children}
    for p in parents:
        if any(c.data_id in tops2 for c in p.children):
            out.append(("add_tree", ["add_tree", ref(p), None, None]))
            break
    return out


def run_histories(case, rec):
    eng = Engine(case["spec"], typed=case.get("typed", False), spec2=case.get("spec2"), known=engine_known(rec), flavour=case.get("flavour", "str"))
    rec.cls("flavour=" + case.get("flavour", "str"))
    attempts = 0
    for op in case["ops"]:
        flush_excluded(eng, rec)
        out = eng.step(op, check_unchanged=False)
        rec.evals += 1
        route = out.plan.route
        if out.plan.status == "refuse" and route.endswith(":collision"):
            attempts += 1
            rec.cls("collision-route=" + route.rsplit(":", 1)[0])
        for cat, bucket, detail in out.events:
            if cat == "unrefused-collision":
                rec.fail(bucket, {"op": op})
                return
            if cat == "wrong-exception" and route.endswith(":collision"):
                rec.fail(bucket, {"op": op, "detail": detail})
                return
        problems, w = structural(eng.tree)
        if problems:
            rec.cls("abandoned:tree-not-well-formed(C01)")
            return
        dup = sibling_unique(eng.tree, w)
        if dup:
            rec.fail(f"{dup[0][0]}:after:{route.split(':')[0]}", {"op": op, "route": route, "detail": dup[0][1]})
            return
    rec.nt(attempts >= 1)


def run_routes(case, rec):
    eng = Engine(case["spec"], typed=case.get("typed", False), spec2=case.get("spec2"), known=engine_known(rec), flavour=case.get("flavour", "str"))
    for op in case["ops"]:  # random prefix to reach a state
        eng.step(op, check_unchanged=False)
        problems, w = structural(eng.tree)
        if problems or sibling_unique(eng.tree, w):
            rec.cls("abandoned:prefix-broke-invariant")
            return
    cands = collision_ops(eng)
    per_route = {}
    for route, op in cands:
        per_route.setdefault(route, []).append(op)
    k = case.get("pick", 0)
    attempts = 0
    for route, ops_ in sorted(per_route.items()):
      for op in (ops_ if case.get("all_ops") else [ops_[k % len(ops_)]]):
        plan = eng.plan(op)
        if plan.status != "refuse" or not plan.route.endswith(":collision"):
            # the constructed op is not a pure collision in this state (e.g. it is also invalid otherwise)
            rec.cls("candidate-not-a-pure-collision")
            continue
        out = eng.step(op, check_unchanged=True)
        rec.evals += 1
        attempts += 1
        rec.cls("route=" + route)
        if out.raised is None:
            rec.fail(f"not-refused:{route}", {"op": op})
            return
        if not isinstance(out.raised, UniqueConstraintError):
            rec.fail(f"refused-with-other-error:{route}:{type(out.raised).__name__}", {"op": op, "exc": repr(out.raised)[:150]})
            return
        problems, w = structural(eng.tree)
        dup = [] if problems else sibling_unique(eng.tree, w)
        if problems or dup:
            rec.fail(f"invariant-broken-after-refusal:{route}", {"op": op, "detail": (problems or dup)[0]})
            return
    rec.nt(attempts >= 1)


# ---- documents with duplicate siblings ---------------------------------------------------
def run_documents(case, rec):
    spec = case["spec"]  # contains at least one duplicate sibling pair by construction
    typed = case["typed"]
    rec.nt(True)
    # from_dict (plain Tree only)
    if not typed:
        def dicts(nodes):
            out = []
            for n in nodes:
                d = {"data": n[0]}
                o = n[2] if len(n) > 2 and n[2] else {}
                if o.get("id") is not None:
                    d["data_id"] = o["id"]
                if n[1]:
                    d["children"] = dicts(n[1])
                out.append(d)
            return out

        rec.evals += 1
        try:
            t = Tree.from_dict(dicts(spec))
            rec.fail("from_dict:duplicate-siblings-accepted", {"spec": spec, "count": t.count})
        except UniqueConstraintError:
            pass
        except Exception as e:  # noqa: BLE001
            rec.fail(f"from_dict:other-error:{type(e).__name__}", repr(e)[:200])
    # load
    nodes = []

    def enc(items, pidx):
        for n in items:
            o = n[2] if len(n) > 2 and n[2] else {}
            idx = len(nodes) + 1
            if typed or o.get("id") is not None:
                payload = {"str": n[0]}
                if o.get("id") is not None:
                    payload["data_id"] = o["id"]
                if typed:
                    payload["kind"] = o.get("kind") or "child"
            else:
                payload = n[0]
            nodes.append([pidx, payload])
            enc(n[1], idx)

    enc(spec, 0)
    text = json.dumps({"meta": {"$generator": "nutree/0.9.1", "$format_version": "1.0"}, "nodes": nodes})
    cls = TypedTree if typed else Tree
    # the document as a stream, as a plain file (str / Path) and as a zip archive (str / Path)
    import os
    import tempfile
    import zipfile
    from pathlib import Path

    with tempfile.TemporaryDirectory(prefix="verif_c03_") as tmp:
        plain = os.path.join(tmp, "doc.nutree")
        with open(plain, "w", encoding="utf8") as fp:
            fp.write(text)
        zipped = os.path.join(tmp, "doc_zip.nutree")
        with zipfile.ZipFile(zipped, "w", compression=zipfile.ZIP_DEFLATED) as zf:
            zf.writestr("doc.json", text)
        targets = [("stream", lambda: io.StringIO(text)), ("path", lambda: plain), ("Path", lambda: Path(plain)),
                   ("zip-path", lambda: zipped), ("zip-Path", lambda: Path(zipped))]
        for tname, mk in targets:
            rec.evals += 1
            try:
                t = cls.load(mk(), mapper=lambda parent, data: data["str"])
                rec.fail(f"load({tname}):duplicate-siblings-accepted", {"spec": spec, "count": t.count})
            except UniqueConstraintError:
                pass
            except Exception as e:  # noqa: BLE001
                rec.fail(f"load({tname}):other-error:{type(e).__name__}", repr(e)[:200])


# data whose data_id is not hash-of-a-str: ints (incl. values with EQUAL hashes: -1 / -2), objects keyed by a
# calc_data_id callback or by a Tree subclass that overrides calc_data_id()
C03_FLAVOURS = ["str", "str", "str", "int", "int", "obj_cb", "obj_sub", "obj_sub", "tuple"]


@st.composite
def hyp_histories(draw, tier):
    n = 30 if tier == "quick" else 60
    flavour = draw(st.sampled_from(C03_FLAVOURS))
    kinds = None
    if flavour != "str":
        kinds = [k for k in draw(st.sampled_from([gen_ops.PROFILES["rekey"], gen_ops.PROFILES["clones"], gen_ops.PROFILES["all"], gen_ops.PROFILES["structure"]])) if k != "rename"] + ["set_data"]
    case = draw(gen_ops.histories(typed=draw(st.booleans()), max_ops=n, kinds=kinds, fresh=flavour != "str"))
    case["flavour"] = flavour
    return case


@st.composite
def hyp_routes(draw, tier):
    typed = draw(st.sampled_from([False, False, True]))
    case = draw(gen_ops.histories(typed=typed, max_ops=8, max_nodes=14, kinds=["add", "add_node", "copy_to", "move", "set_data", "remove"], big=(20, 41)))
    case["pick"] = draw(st.integers(0, 50))
    if draw(st.sampled_from([0, 0, 1])):
        case["flavour"] = draw(st.sampled_from(["int", "obj_sub", "obj_cb"]))
        return case
    if draw(st.sampled_from([0, 0, 0, 1])):
        # directed multi-step: re-key a clone group (with_clones=True) onto a data_id that other nodes already
        # carry elsewhere (the groups merge), afterwards every member of the merged group must still block its parent
        base = gen.spec_nodes(case["spec"])
        case["spec"] = case["spec"] + [["p1", [["g1", []]]], ["p2", [["g1", []], ["k1", []]]], ["p3", [["h1", []]]]]
        how = draw(st.sampled_from(["data", "id"]))
        if how == "data":
            case["ops"] = [["set_data", base + 1, "h1", None, True, False]]
        else:
            hid = hash("h1")
            case["ops"] = [["set_data", base + 1, None, hid, True, False]]
        return case
    if not typed and draw(st.sampled_from([0, 1])):
        # directed: clones nested in each other whose un-nested (grand)children collide one or two levels up
        g, x = draw(st.sampled_from([("e", "f"), ("a", "b"), ("c", "d")]))
        inner = [g, [[x, []]]] if draw(st.booleans()) else [g, [[g, [[x, []]]]]]
        variant = draw(st.sampled_from(["two-levels-up", "inner-sibling", "inner-sibling", "indirectly-nested", "inner-is-older", "inner-is-older", "look-alike-ids", "look-alike-ids"]))
        if variant == "look-alike-ids":
            # un-nesting puts a clone (explicit id 7) next to its twin, with a node whose id is the STRING "7" between
            k = draw(st.sampled_from([7, 0, 42]))
            case["spec"] = case["spec"] + [["zz", [["q3", [], {"id": k}], ["q4", [["q5", [], {"id": str(k)}], ["q3", [], {"id": k}]]]]]]
            case["ops"] = []
            return case
        if variant == "inner-is-older":
            g, x = "q1", "q2"  # (labels of their own: the pattern is always placeable)
            # nested clones where the INNER one was registered first: it is created at the top level and then moved
            # below a clone that was created later; the outer clone's parent already holds x
            base = gen.spec_nodes(case["spec"])
            if all(n[0] not in (g, x, "zz") for n in case["spec"]):
                case["spec"] = case["spec"] + [[g, [[x, []]]], ["zz", [[g, []], [x, []]]]]
                case["ops"] = [["move", base, base + 3, None]]
            return case
        if variant == "two-levels-up":
            pat = [[g, [inner, ["a1", []]]], [x, []]]
        elif variant == "indirectly-nested":
            # a clone two levels below another clone (g > m > g' > x) while m already has a child with x's data:
            # un-nesting the whole clone group puts x next to it
            pat = [[g, [["m1", [[g, [[x, []]]], [x, []]]]]]]
        else:
            # the inner clone's own child collides with the inner clone's sibling (remove inner, keep_children)
            pat = [[g, [[g, [[x, []], ["a1", []]]], [x, []]]]]
        host = draw(st.sampled_from(["top", "below"]))
        if host == "top" and all(n[0] not in (g, x) for n in case["spec"]):
            case["spec"] = case["spec"] + pat
            case["ops"] = []
        elif host == "below":
            case["spec"] = case["spec"] + [["zz", pat]]
            case["ops"] = []
    # make tree2 share labels with tree 1, so add(tree) collides often
    return case


@st.composite
def hyp_documents(draw, tier):
    typed = draw(st.booleans())
    spec = draw(gen.forest_specs(max_nodes=10, max_depth=4, max_width=4, min_nodes=1, alphabet=["a", "b", "c"], opts=gen.node_opts(explicit_ids=True, kinds=typed)))
    gen.fix_sibling_ids(spec)
    # inject one duplicate sibling pair at a random place
    lists = []

    def collect(nodes):
        lists.append(nodes)
        for n in nodes:
            collect(n[1])

    collect(spec)
    cand = [lst for lst in lists if lst]
    lst = cand[draw(st.integers(0, len(cand) - 1))]
    src = lst[draw(st.integers(0, len(lst) - 1))]
    dup = [src[0], []] + ([dict(src[2])] if len(src) > 2 and src[2] else [])
    mode = draw(st.sampled_from(["same-data", "same-explicit-id"]))
    if mode == "same-explicit-id":
        o = dict(dup[2]) if len(dup) > 2 else {}
        if o.get("id") is None:
            # give both the same explicit id but different data
            o["id"] = "DUP"
            if len(src) > 2 and src[2]:
                src[2]["id"] = "DUP"
            else:
                del src[2:]
                src.append({"id": "DUP"})
        dup = ["zz", [], o]
    lst.insert(draw(st.integers(0, len(lst))), dup)
    return {"spec": spec, "typed": typed}


# (what round 8 added to the case domain; part of the evidence text)
RULE_ROUND8 = ' One generated forest in 20 (60 in the thorough tier) is a BIG one (gen.big_specs: a child list of 11..300 nodes, that many clones of one data object, more than 256 nodes), with node references aimed at notable positions of the long child lists. Histories and routes also run with int data (incl. the hash twins -1 / -2), objects keyed by a callback and by a Tree subclass overriding calc_data_id(). Part python-O: histories and routes with PYTHONOPTIMIZE=1.'
RULE = RULE + RULE_ROUND8

RULE_ROUND9 = " Directed route patterns: nested clones whose INNER one is the older node (created first, moved below a younger clone), and an int data_id next to its string look-alike (7, '7', 7) in the child list that an un-nesting would produce."
RULE = RULE + RULE_ROUND9 + " Part directed-un-nest-patterns: the nested-clone and look-alike patterns once each (top level and below a host), every colliding operation tried. Part big-trees: 1-4 operations on a big tree (incl. forests of many clones with the directed operations 'the first clone leaves, the same data comes back below the tree / below a parent whose last child carries it / in front of such a child')."

def directed_unnest_cases(tier):
    """the nested-clone / look-alike patterns of the routes part, each once, at the top level and below a host node,
    with EVERY colliding operation the harness can construct tried (not a generated pick)"""
    g, x = "a", "b"
    pats = {
        "inner-sibling": ([[g, [[g, [[x, []], ["a1", []]]], [x, []]]]], []),
        "two-levels-up": ([[g, [[g, [[x, []]]], ["a1", []]]], [x, []]], []),
        "two-levels-up-deep": ([[g, [[g, [[g, [[x, []]]]]], ["a1", []]]], [x, []]], []),
        "indirectly-nested": ([[g, [["m1", [[g, [[x, []]]], [x, []]]]]]], []),
        "inner-is-older": ([[g, [[x, []]]], ["zz", [[g, []], [x, []]]]], [["move", 0, 3, None]]),
        "look-alike-ids": ([["zz", [["q3", [], {"id": 7}], ["q4", [["q5", [], {"id": "7"}], ["q3", [], {"id": 7}]]]]]], []),
    }
    for name, (spec, ops) in pats.items():
        yield {"pattern": name, "spec": spec, "spec2": [], "typed": False, "ops": ops, "pick": 0, "all_ops": True}
        if not ops:
            yield {"pattern": name + "/hosted", "spec": [["h0", []], ["host", spec]], "spec2": [], "typed": False, "ops": [], "pick": 0, "all_ops": True}


@st.composite
def big_histories(draw, tier):
    """short histories on a BIG tree (gen.big_specs: also that many clones of one data object, with the directed
    'first clone leaves, the same data comes back' operations of gen_ops.histories)"""
    case = draw(gen_ops.histories(typed=draw(st.sampled_from([False, False, True])), max_ops=4, min_ops=1, big=1,
                                  kinds=["add", "add", "add_node", "prepend_sibling", "set_data", "move", "remove", "copy_to"]))
    case["flavour"] = "str"
    return case


PARTS = [
    Part("histories", run_histories, strategy=hyp_histories, n={"quick": 600, "thorough": 100000}),
    Part("routes", run_routes, strategy=hyp_routes, n={"quick": 600, "thorough": 100000}),
    Part("directed-un-nest-patterns", run_routes, enum=directed_unnest_cases),
    Part("big-trees", run_histories, strategy=big_histories, n={"quick": 240, "thorough": 10000}),
    Part("documents", run_documents, strategy=hyp_documents, n={"quick": 200, "thorough": 30000}),
    optimized_part("C03", ['histories', 'routes']),
]
