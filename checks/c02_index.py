"""C02 - lookups and clone queries reflect exactly the nodes currently in the tree (DESIGN section 3, C02)."""

from __future__ import annotations

from hypothesis import strategies as st

from vlib import gen_ops
from vlib.build import FLAVOURS
from vlib.core import Part, optimized_part
from vlib.invariants import index_exact, structural
from vlib.ops import Engine, engine_known, flush_excluded

ID = "C02"
LEVEL = "exploration"
TECHNIQUE = 'stateful property-based testing; differential oracle index vs brute-force scan, data_id rule via reference model'
LEVEL_TEXT = 'exploration: op histories over 8 data flavours; after every step every lookup / clone query is compared with a brute-force scan of the reachable nodes, for all ids and data objects ever used'
RULE = (
    "case = (data flavour in {str, int, tuple, frozen dataclass, DictWrapper around a shared dict, objects keyed by a "
    "Tree(calc_data_id=cb) callback, objects keyed by a Tree subclass overriding calc_data_id, unhashable dicts with "
    "explicit data_id}, initial tree with clones, history as in C01 interleaved with set_data/rename on single nodes "
    "and clone groups (with_clones True/False/None, data only, id only, both, re-keying that merges groups), "
    "equal-but-distinct data objects). Oracle after every step (differential: index vs brute-force scan of the "
    "reachable nodes): for every data_id ever used find_all/find_first(data_id=) == scan group; for every data object "
    "ever used find_all/find_first/`in` == group of its id; get_clones / get_clones(add_self) / is_clone for every "
    "node; count_unique; and the data_id rule (explicit id, else callback, else hash) through the model's expected "
    "ids. Non-trivial: the history contains a set_data/rename or remove that hit a node of a clone group of size >= 2; "
    "distinct = distinct case."
)
ASSUMPTIONS = [
    "data objects, explicit data_ids are truthy",
    "lookups by data object are skipped for the unhashable-dict flavour (they need an explicit data_id by construction)",
]


def run(case, rec):
    flavour = case["flavour"]
    eng = Engine(case["spec"], typed=case.get("typed", False), spec2=case.get("spec2"), flavour=flavour, known=engine_known(rec))
    fl = eng.fl
    rec.cls(f"flavour={flavour}")
    if eng.build_problems:
        rec.fail("data_id-rule:initial-add", eng.build_problems[0])
        return
    ids_ever = set()
    hit_clone_group = False
    calc = None
    if flavour != "dict_explicit":
        calc = lambda data: fl.auto_id(fl.label(data), data)  # noqa: E731

    def remember():
        for m in eng.model.preorder():
            ids_ever.add(m.data_id)

    remember()
    for op in case["ops"]:
        flush_excluded(eng, rec)
        # does the op address a member of a clone group?
        target_in_group = False
        if op[0] in ("set_data", "rename", "remove", "del") and eng.model.count():
            m = eng.node(op[1])
            if m is not None and len(eng.model.group(m.data_id)) >= 2:
                target_in_group = True
        out = eng.step(op, check_unchanged=False)
        rec.evals += 1
        if out.plan.status == "valid" and out.raised is None and target_in_group:
            hit_clone_group = True
            rec.cls(f"clone-group-op={op[0]}")
        problems, w = structural(eng.tree, eng.ever)
        if w.problems:
            rec.cls("abandoned:tree-not-walkable(C01)")
            return
        # the node_id lookups are part of this property: no removed node, no missing node
        by_nid = [p for p in problems if p[0] in ("find_first(node_id)-misses-reachable-node", "removed-node-still-found-by-node_id")]
        if by_nid:
            rec.fail(f"{by_nid[0][0]}:after:{out.plan.route.split(':')[0]}", {"op": op, "route": out.plan.route, "detail": by_nid[0][1]})
            return
        for cat, bucket, detail in out.events:
            if cat == "effect" and bucket.endswith(":data_id"):
                rec.fail("data_id-rule:" + out.plan.route.split(":")[0], {"op": op, "detail": detail})
                return
        # a node that was given an explicit node_id (int, or its documented str form) is found under the int
        if out.plan.status == "valid" and out.raised is None:
            for m in eng.model.preorder():
                if m.node_id is not None:
                    try:
                        r = eng.real(m)
                        f = eng.tree.find_first(node_id=int(m.node_id))
                    except Exception:  # noqa: BLE001  (model and tree out of step: the effect comparison's subject)
                        break
                    if f is not r:
                        rec.fail(f"explicit-node_id-not-found-as-int:after:{out.plan.route.split(':')[0]}", {"op": op, "node_id": m.node_id, "found": repr(f)})
                        return
        remember()
        bad = index_exact(eng.tree, w, extra_ids=sorted(ids_ever, key=repr), extra_data=list(fl.keep), calc=calc)
        if bad:
            rec.fail(f"{bad[0][0]}:after:{out.plan.route.split(':')[0]}", {"op": op, "route": out.plan.route, "detail": bad[0][1]})
            return
        if problems:
            # lookups are exact although the tree is not well-formed in another respect: C01's subject
            rec.cls("abandoned:tree-not-well-formed(C01)")
            return
    rec.nt(hit_clone_group)


@st.composite
def hyp_cases(draw, tier):
    flavour = draw(st.sampled_from(FLAVOURS))
    kinds = draw(st.sampled_from([
        gen_ops.PROFILES["rekey"], gen_ops.PROFILES["clones"], gen_ops.PROFILES["all"],
        ["add", "add_node", "set_data", "set_data", "set_data", "remove", "copy_to", "filter", "clear", "move"],
    ]))
    if flavour != "str":
        kinds = [k for k in kinds if k != "rename"] + ["set_data"]
    case = draw(gen_ops.histories(typed=draw(st.sampled_from([False, False, False, True])), max_ops=30 if tier == "quick" else 60,
                                  kinds=kinds, fresh=True, explicit_ids=True, max_nodes=12, big=(20, 66)))
    case["flavour"] = flavour
    return case


# (what round 8 added to the case domain; part of the evidence text)
RULE_ROUND8 = ' One generated forest in 20 (60 in the thorough tier) is a BIG one (gen.big_specs: a child list of 11..300 nodes, that many clones of one data object, more than 256 nodes), with node references aimed at notable positions of the long child lists. (width <= 66). The node_id lookups (no removed node, no missing node) are evaluated here as well. Part python-O: the histories once more with PYTHONOPTIMIZE=1. Flavour int holds 2**62+11, -1 and (as new data only) its hash twin -2; DictWrapper around a hashable dict subclass.'
RULE = RULE + RULE_ROUND8

RULE_ROUND9 = ' Every explicit node_id (also one passed as str) must be found under its int; both trees of a history carry the same explicit node_ids in a third of the cases.'
RULE = RULE + RULE_ROUND9

PARTS = [
    Part("histories", run, strategy=hyp_cases, n={"quick": 1500, "thorough": 200000}),
    optimized_part("C02", ['histories']),
]
