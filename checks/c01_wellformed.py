"""C01 - the node graph stays a well-formed tree after any mutation history (DESIGN section 3, C01)."""

from __future__ import annotations

from hypothesis import strategies as st

from vlib import gen_ops
from vlib.core import Part, optimized_part
from vlib.invariants import structural
from vlib.ops import Engine, engine_known, flush_excluded

ID = "C01"
LEVEL = "exploration"
TECHNIQUE = 'stateful property-based testing (Hypothesis op histories) with structural invariants from an independent walker'
LEVEL_TEXT = "exploration: random op histories (swarm profiles, plain/typed, 10 data flavours) with the well-formedness predicate evaluated after every step by a walker that does not use nutree's iterators; finds history-dependent corruption, proves nothing beyond the cases run"
RULE = (
    "case = (initial tree spec <= 15 nodes with clones and equal-comparing siblings, data flavour (str, int, tuple, dataclass, DictWrapper, callback-keyed objects, explicit-id dicts), second tree as copy source, "
    "history of <= 40/80 ops drawn from a swarm profile over add / append / prepend / sibling inserts / node and tree "
    "copy-in / copy_to / move_to (also into the own branch, across trees) / remove (keep_children, with_clones, nested "
    "clones) / remove_children / clear / del / sort / set_data / rename / meta / filter; plain and typed trees; "
    "documented-invalid and documentation-silent argument choices included). Oracle after EVERY step, whether the "
    "call returned or raised: an independent structural walk from tree.children reaches every node once (no sharing, "
    "no cycle), each reports the tree as owner, its walk parent as parent, is once (by identity) in that child list, "
    "is not its own ancestor; tree.count == len(tree) == #reachable; node_ids unique and find_first(node_id) hits; "
    "iteration yields exactly the reachable set; nodes that left (removed, descendants, clear, filter) are not found "
    "by their former node_id. Non-trivial: >= 3 structure-changing ops succeeded and the tree had >= 5 nodes with a "
    "clone group or equal-comparing siblings at some step; distinct = distinct case. Part single-steps: every single operation (every kind x node x target x position) on all forests <= 5/7 nodes. Part deep-removal: clear / remove / "
    "remove_children / un-nest on a branch of 650-800 levels (the unchanged code handles about 980) that follows a shallow "
    "sibling branch: no RecursionError, tree well-formed, removed nodes detached, survivors as expected."
)
EXHAUSTIVE_NOTE = {"quick": "two-step histories (re-key/move, then remove x keep_children x with_clones) on all clone labelings over {a,b} of forests <= 3 nodes", "thorough": "the same for forests <= 4 nodes"}
ASSUMPTIONS = [
    "node objects ever seen are kept alive by the harness, so an id() is never recycled inside a case",
    "Tree._self_check() is not used (private; asserts node_id == id(node))",
]

STRUCT = {"add", "append_child", "prepend_child", "prepend_sibling", "append_sibling", "add_node", "copy_to", "add_tree", "shortcut_tree", "add_own_tree", "own_copy_to", "move",
          "remove", "remove_children", "clear", "del", "filter"}


def run(case, rec):
    eng = Engine(case["spec"], typed=case.get("typed", False), spec2=case.get("spec2"), known=engine_known(rec),
                 flavour=case.get("flavour", "str"))
    rec.cls(f"flavour={case.get('flavour', 'str')}")
    changed = 0
    rich = False
    rec.cls(f"profile={case.get('profile')}")
    for op in case["ops"]:
        flush_excluded(eng, rec)
        before = eng.model.snapshot()
        out = eng.step(op, check_unchanged=False)
        rec.evals += 1
        route = out.plan.route
        problems, w = structural(eng.tree, eng.ever)
        if problems:
            how = "raised" if out.raised is not None else "returned"
            rec.fail(f"{problems[0][0]}:after:{route.split(':')[0]}:{how}", {"op": op, "route": route, "detail": problems[0][1],
                                                                            "raised": repr(out.raised)[:120] if out.raised else None})
            return
        if out.plan.status == "valid" and out.raised is None and out.expected_gone:
            reach = {id(n) for n in w.pre}
            still = [n for n in out.expected_gone if id(n) in reach]
            if still:
                rec.fail(f"removed-node-still-reachable:after:{route.split(':')[0]}", {"op": op, "route": route, "nodes": [repr(n) for n in still[:3]]})
                return
        if out.plan.status == "valid" and out.raised is None and op[0] in STRUCT and eng.model.snapshot() != before:
            changed += 1
        if route.startswith("move:into-own-branch"):
            rec.cls("move-into-own-branch")
        if len(w.pre) >= 5 and not rich:
            ids = [n.data_id for n in w.pre]
            eq_sib = any(a is not b and a.data == b.data for kids in w.kids.values() for a in kids for b in kids)
            rich = len(set(ids)) < len(ids) or eq_sib
            if eq_sib:
                rec.cls("had-equal-comparing-siblings")
    rec.nt(changed >= 3 and rich)


@st.composite
def hyp_cases(draw, tier):
    n = 40 if tier == "quick" else 80
    typed = draw(st.sampled_from([False, False, True]))
    flavour = draw(st.sampled_from(["str", "str", "str", "int", "tuple", "dc", "dictwrap", "obj_cb", "obj_sub", "dict_explicit", "obj_fwd"]))
    case = draw(gen_ops.histories(typed=typed, max_ops=n, fresh=flavour != "str", big=8))
    case["flavour"] = flavour
    return case


BIG_KINDS = ["filter"] * 3 + ["remove"] * 2 + ["move"] * 2 + ["add_tree", "copy_to", "sort", "remove_children", "add_node", "add", "prepend_sibling",
                                                              "set_data", "del", "shortcut_tree", "add_own_tree"]


@st.composite
def big_cases(draw, tier):
    """one to three operations on a BIG tree (a child list of 11..300 nodes, a clone group of that size, more than
    256 nodes): where a bulk / chunked / "fast path" variant of an operation would start to differ"""
    typed = draw(st.sampled_from([False, False, True]))
    case = draw(gen_ops.histories(typed=typed, max_ops=3, min_ops=1, kinds=BIG_KINDS, big=1))
    case["flavour"] = draw(st.sampled_from(["str", "str", "obj_cb"]))
    return case


def enum_cases(tier):
    """Two-step histories on small clone labelings: first re-key or move a node (so that a clone nested
    below its twin can be OLDER in the index than the outer one), then remove with every flag combination."""
    from vlib import enumer

    nmax = 3 if tier == "quick" else 4
    for n in range(2, nmax + 1):
        for shp in enumer.forest_shapes(n):
            for spec in enumer.sibling_unique_labelings(shp, ["a", "b"]):
                firsts = [["rename", i, lab] for i in range(n) for lab in ("a", "b")]
                firsts += [["move", i, t, None] for i in range(n) for t in range(-1, n)]
                firsts += [["set_data", i, lab, None, True, False] for i in range(n) for lab in ("a", "b")]
                for f in firsts:
                    if f[0] == "move":
                        # (registration order no longer follows the hierarchy; then everything goes at once)
                        yield {"spec": spec, "spec2": [], "typed": False, "ops": [f, ["clear"]], "profile": "two-step"}
                    for k in range(n):
                        for kc in (False, True):
                            for wc in (False, True):
                                yield {"spec": spec, "spec2": [], "typed": False, "ops": [f, ["remove", k, kc, wc]], "profile": "two-step"}


def run_deep(case, rec):
    """Removal of a deep branch (650-800 levels; the unchanged code handles about 980 with the default recursion
    limit) that comes after a shallow sibling branch: afterwards the tree is well-formed, the removed nodes are
    detached and the survivors are exactly the expected ones."""
    from nutree import Tree

    depth, op = case["depth"], case["op"]
    tree = Tree("deep")
    keep = tree.add("keep")
    keep.add("k1")
    host = tree.add("host")
    shallow = host.add("shallow")
    shallow.add("s1").add("s2")
    chain = []
    parent = host
    for i in range(depth):
        parent = parent.add(f"c{i}")
        chain.append(parent)
        if i % 50 == 0:
            parent.add(f"leaf{i}")
    before = len(tree)
    rec.nt(True)
    rec.cls(f"op={op}")
    rec.evals += 1
    try:
        if op == "clear":
            tree.clear()
            gone, exp_count = [keep, host, shallow] + chain, 0
        elif op == "remove":
            host.remove()
            gone, exp_count = [host, shallow] + chain, 2
        elif op == "remove_children":
            host.remove_children()
            gone, exp_count = [shallow] + chain, 3
        elif op == "remove_chain_top":
            chain[0].remove()
            gone, exp_count = chain, 6
        else:  # un-nest the top of the deep chain
            chain[0].remove(keep_children=True)
            gone, exp_count = chain[:1], before - 1
    except RecursionError as e:
        rec.fail(f"deep:{op}:RecursionError", {"depth": depth, "exc": repr(e)[:80]})
        return
    problems, w = structural(tree)
    if problems:
        rec.fail(f"deep:{op}:{problems[0][0]}", problems[0][1])
        return
    if len(w.pre) != exp_count:
        rec.fail(f"deep:{op}:survivors", {"reachable": len(w.pre), "expected": exp_count})
    reach = {id(n) for n in w.pre}
    for n in gone:
        if id(n) in reach or n.tree is not None:
            rec.fail(f"deep:{op}:removed-node-still-attached", repr(n)[:80])
            break


def deep_cases(tier):
    for depth in ([700] if tier == "quick" else [650, 800]):
        for op in ("clear", "remove", "remove_children", "remove_chain_top", "unnest"):
            yield {"depth": depth, "op": op}


def single_step_cases(tier):
    """every single operation of C04's enumeration (every op kind x every node / target / position on all small
    forests, plain and typed): here only the structural invariants are evaluated"""
    from checks.c04_effects import enum_cases as single_steps

    yield from single_steps(tier)


# (what round 8 added to the case domain; part of the evidence text)
RULE_ROUND8 = ' One generated forest in 20 (60 in the thorough tier) is a BIG one (gen.big_specs: a child list of 11..300 nodes, that many clones of one data object, more than 256 nodes), with node references aimed at notable positions of the long child lists. Part big-trees: 1-3 operations (weighted towards filter / remove / move / bulk copies) on a big tree. Part python-O: the histories and big-trees parts once more in a child interpreter with PYTHONOPTIMIZE=1 (asserts stripped). Filter predicates also answer SkipBranch(and_self=False); node_id is also passed as a numeric str; data flavours include ints whose hash is not the value and a DictWrapper around a hashable dict subclass.'
RULE = RULE + RULE_ROUND8

PARTS = [
    Part("deep-removal", run_deep, enum=deep_cases),
    Part("single-steps", run, enum=single_step_cases),
    Part("histories", run, strategy=hyp_cases, n={"quick": 1500, "thorough": 200000}),
    Part("two-step-clones", run, enum=enum_cases),
    Part("big-trees", run, strategy=big_cases, n={"quick": 400, "thorough": 20000}),
    optimized_part("C01", ['histories', 'big-trees']),
]
