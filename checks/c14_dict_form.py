"""C14 - the nested list-of-dicts form mirrors the tree and round-trips (DESIGN section 3, C14)."""

from __future__ import annotations

import json

from hypothesis import strategies as st

from vlib import gen
from vlib.build import Flavour, Person, build
from vlib.core import Part
from vlib.observe import walk

from nutree import Tree

ID = "C14"
LEVEL = "exploration"
TECHNIQUE = 'property-based testing: mirror oracle built from an independent walk + round trip'
LEVEL_TEXT = 'exploration: generated string trees (explicit ids incl. 0, clones, emptied trees) and object trees (truthy and falsy objects, in-place and new-dict mappers), optional JSON round trip'
RULE = (
    "case = (tree spec, flavour in {str without mapper, Person objects keyed by a calc_data_id callback with a pair of "
    "inverse mappers}, json dump/load in between?, emptied-again?, rearranged after creation (sort, move_to, "
    "prepend_sibling: sibling order != creation order)?). Oracle 1 (mirror): to_dict_list() is compared "
    "with a dict structure built directly from an independent walk (one dict per node, child order, data = str(data) "
    "or mapper output, data_id present iff it differs from hash(data), children key exactly for inner nodes). Oracle "
    "2 (round trip): Tree.from_dict() reproduces shape, order, data, explicit data_ids and the clone partition, and hands "
    "the deserialize mapper the parent node of each item. "
    "Further: string trees of a Tree subclass that overrides serialize_mapper (the save-format mapper is not the "
    "default of the dict form), and trees of DictWrapper objects with the library's DictWrapper.serialize_mapper "
    "(mirror, then children are removed and the form must mirror the new shape; the wrapped dicts stay unmodified). "
    "Non-trivial: tree has a clone group or an explicit id (DictWrapper: an inner node); distinct = distinct case."
)
ASSUMPTIONS = [
    "without mapper only string data is used (the dict form stores str(data))",
    "hash(str) is stable inside one process (PYTHONHASHSEED fixed by ./check)",
]


def ser_mapper(node, data):
    d = node.data
    data["type"] = "person"
    data["name"] = d.name
    if isinstance(d, FalsyPerson):
        data["falsy"] = True
    return data


def ser_mapper_newdict(node, data):
    # a mapper may also return a new dict
    out = {"data": data["data"], "data_id": data.get("data_id"), "type": "person", "name": node.data.name}
    if isinstance(node.data, FalsyPerson):
        out["falsy"] = True
    return out


def ser_mapper_guidkey(node, data):
    # own schema: the id is stored under another key, the dict form's "data_id" key is not used
    return {"guid": node.data.guid, "name": node.data.name, "falsy": isinstance(node.data, FalsyPerson)}


def deser_mapper_guidkey(parent, item):
    # "mapper may add item['data_id']" (Node.from_dict): the id travels back through the item
    item["data_id"] = item["guid"]
    cls = FalsyPerson if item.get("falsy") else Person
    return cls(item["guid"], item["name"])


class FalsyPerson(Person):
    """a legal data object that happens to be falsy"""

    def __bool__(self):
        return False


def deser_mapper(parent, item):
    if item.get("falsy"):
        return FalsyPerson(item["data_id"], item["name"])
    return Person(item["data_id"], item["name"])


class SaveMapperTree(Tree):
    """A Tree subclass in the style of the user guide: its serialize_mapper belongs to the compact save() format
    (entries with a "str" key); the dict form of to_dict_list() has its own documented default."""

    def serialize_mapper(self, node, data):
        data["s"] = data.pop("str")
        return data


def run_dictwrap(case, rec):
    """DictWrapper objects with the library's DictWrapper.serialize_mapper: the dict form mirrors the tree - also the
    second time, after the tree changed (the wrapped dicts are the user's objects, not scratch space)."""
    from nutree.common import DictWrapper

    fl = Flavour("dictwrap")
    tree, nodes = build(case["spec"], flavour=fl)
    rec.cls("flavour=dictwrap")
    contents = {id(n.data): dict(n.data._dict) for n in nodes}

    def mirror(tag):
        w = walk(tree)

        def exp_dict(n):
            d = dict(contents[id(n.data)])
            if w.kids[id(n)]:
                d["children"] = [exp_dict(c) for c in w.kids[id(n)]]
            return d

        exp = [exp_dict(n) for n in w.kids[id(None)]]
        rec.evals += 1
        try:
            got = tree.to_dict_list(mapper=DictWrapper.serialize_mapper)
        except Exception as e:  # noqa: BLE001
            rec.fail(f"dictwrap:{tag}:raises", repr(e)[:200])
            return False
        if got != exp:
            rec.fail(f"dictwrap:{tag}:mirror", {"got": got, "exp": exp})
            return False
        for n in w.pre:
            if n.data._dict != contents[id(n.data)]:
                rec.fail(f"dictwrap:{tag}:data-object-modified", {"now": n.data._dict, "was": contents[id(n.data)]})
                return False
        return True

    if not mirror("first"):
        return
    # two trees built from ONE structure with the library's own mapper: editing the data of one of them shows neither
    # in the structure nor in the other tree
    import copy as _copy
    import json as _json

    structure = tree.to_dict_list(mapper=DictWrapper.serialize_mapper)
    keep = _json.dumps(structure, sort_keys=True)
    try:
        ta = Tree.from_dict(structure, mapper=DictWrapper.deserialize_mapper)
        tb = Tree.from_dict(structure, mapper=DictWrapper.deserialize_mapper)
    except Exception as e:  # noqa: BLE001
        rec.fail("dictwrap:from_dict:raises", repr(e)[:200])
        return
    rec.evals += 1
    before_b = [dict(n.data._dict) for n in tb]
    for n in ta:
        n.data._dict["edited"] = True
        n.data._dict["name"] = "edited"
    if _json.dumps(structure, sort_keys=True) != keep:
        rec.fail("dictwrap:from_dict:editing-a-built-tree-changes-the-structure", {"before": _json.loads(keep), "after": structure})
        return
    if [dict(n.data._dict) for n in tb] != before_b:
        rec.fail("dictwrap:from_dict:two-trees-from-one-structure-share-data", None)
        return
    del _copy
    inner = [n for n in nodes if n.children]
    rec.nt(bool(inner))
    for i in case.get("strip", []):
        if inner:
            inner[i % len(inner)].remove_children()
            inner = [n for n in inner if n.tree is tree and n.children]
    mirror("after-removing-children")


def run(case, rec):
    flav = case["flavour"]
    if flav == "dictwrap":
        return run_dictwrap(case, rec)
    fl = Flavour("obj_cb" if flav == "obj" else "str")
    if flav == "obj" and case.get("falsy"):
        # every second label is represented by a falsy (but perfectly legal) object
        orig = fl._make
        fl._make = lambda label: FalsyPerson("g-" + label, label) if (len(label) + (ord(label[0]) if label else 0)) % 2 else orig(label)
    if flav == "str" and case.get("tags"):
        # some of the strings are instances of a str subclass whose str() text is not its value: the documented
        # dict form carries str(data)
        from vlib.serial import Tag

        fl._make = lambda label: Tag(label) if label[:1] in ("b", "d", "q") else label
        rec.cls("str-subclass-data")
    tree, nodes = build(case["spec"], flavour=fl, tree=SaveMapperTree("T") if case.get("subclass") else None)
    if case.get("subclass"):
        rec.cls("Tree-subclass-with-save-mapper")
    if case.get("emptied"):
        # a tree that was filled and emptied again
        if case["emptied"] == "clear":
            tree.clear()
        else:
            for n in list(tree.children):
                n.remove()
    if case.get("rearrange") and nodes:
        # sibling order that differs from creation order (a refused step is simply not taken)
        done = 0
        for kind, i, j in case["rearrange"]:
            alive = [n for n in nodes if n.tree is tree]
            if not alive:
                break
            a = alive[i % len(alive)]
            try:
                if kind == "sort":
                    if i % 3 == 0:
                        tree.sort(reverse=bool(j % 2))
                    else:
                        a.sort_children(reverse=bool(j % 2))
                elif kind == "move":
                    b = alive[j % len(alive)]
                    a.move_to(tree if j % 4 == 0 else b, before=True if i % 2 else None)
                else:
                    a.prepend_sibling(fl.data(f"new{done}"))
                done += 1
            except Exception:  # noqa: BLE001  (refusals are C13's subject)
                pass
        if done:
            rec.cls("rearranged-after-creation")
    w = walk(tree)
    mapper = None
    style = case.get("style", "newdict" if case.get("newdict") else "inplace")
    if flav == "obj" and style == "refs":
        # a pair of inverse mappers that writes each object once: the full record at its first occurrence in document
        # order, {"ref": guid} at every later one (document order = the nesting of the structure, depth first)
        seen_guids = set()

        def mapper(node, data):
            g = node.data.guid
            if g in seen_guids:
                return {"ref": g}
            seen_guids.add(g)
            return {"guid": g, "name": node.data.name, "falsy": isinstance(node.data, FalsyPerson)}
    elif flav == "obj":
        mapper = {"newdict": ser_mapper_newdict, "inplace": ser_mapper, "guidkey": ser_mapper_guidkey}[style]

    # ---- oracle 1: mirror -----------------------------------------------------------
    exp_seen = set()

    def exp_dict(n):
        d = {"data": str(n.data)}
        if n.data_id != hash(n.data):
            d["data_id"] = n.data_id
        if flav == "obj" and style == "refs":
            if n.data.guid in exp_seen:
                d = {"ref": n.data.guid}
            else:
                exp_seen.add(n.data.guid)
                d = {"guid": n.data.guid, "name": n.data.name, "falsy": isinstance(n.data, FalsyPerson)}
        elif flav == "obj" and style == "guidkey":
            d = {"guid": n.data.guid, "name": n.data.name, "falsy": isinstance(n.data, FalsyPerson)}
        elif flav == "obj":
            if style == "newdict":
                d = {"data": d["data"], "data_id": d.get("data_id"), "type": "person", "name": n.data.name}
            else:
                d["type"] = "person"
                d["name"] = n.data.name
            if isinstance(n.data, FalsyPerson):
                d["falsy"] = True
        ks = w.kids[id(n)]
        if ks:
            d["children"] = [exp_dict(c) for c in ks]
        return d

    exp = [exp_dict(n) for n in w.kids[id(None)]]
    try:
        got = tree.to_dict_list(mapper=mapper) if mapper else tree.to_dict_list()
    except Exception as e:  # noqa: BLE001
        rec.fail("to_dict_list:raises" + (":empty-tree" if not w.pre else ""), repr(e))
        return
    rec.evals += 1
    if got != exp:
        rec.fail("mirror", {"got": got, "exp": exp})
        return
    ids = [n.data_id for n in w.pre]
    rec.nt(len(set(ids)) < len(ids) or any(n.data_id != hash(n.data) for n in w.pre))
    rec.cls(f"flavour={flav}")
    if case.get("emptied"):
        rec.cls("emptied-again")

    # ---- oracle 2: round trip -----------------------------------------------------------
    obj = got
    try:
        dumped = json.dumps(got)
    except ValueError as e:
        rec.fail("to_dict_list:not-json-serializable", repr(e))
        return
    if case.get("json"):
        obj = json.loads(dumped)
        rec.cls("json-roundtrip")
    dmap0 = deser_mapper_guidkey if style in ("guidkey", "refs") else deser_mapper
    seen_parents = []
    loaded_objs = {}

    def dmap(parent, item):
        # the mapper is handed the (already created) parent node of the item it is asked to convert
        pname = None if parent.is_system_root() else getattr(parent.data, "name", parent.data)
        if style == "refs" and "ref" in item:
            obj_ = loaded_objs[item["ref"]]  # KeyError if a reference is converted before its definition
            item["data_id"] = obj_.guid
        else:
            obj_ = dmap0(parent, item)
            if style == "refs":
                loaded_objs[obj_.guid] = obj_
        seen_parents.append((pname, getattr(obj_, "name", obj_)))
        return obj_
    keep = json.loads(dumped) if style not in ("guidkey", "refs") else None  # what the structure looked like before from_dict
    try:
        t2 = Tree.from_dict(obj, mapper=dmap) if flav == "obj" else Tree.from_dict(obj)
    except Exception as e:  # noqa: BLE001
        rec.fail("from_dict:raises", repr(e))
        return
    rec.evals += 1
    if flav == "obj":
        exp_parents = [((None if w.parent[id(n)] is None else w.parent[id(n)].data.name), n.data.name) for n in w.pre]
        if sorted(seen_parents, key=repr) != sorted(exp_parents, key=repr):
            rec.fail("from_dict:mapper-got-wrong-parent", {"got": seen_parents[:8], "exp": exp_parents[:8]})
            return
    if keep is not None and json.loads(json.dumps(obj)) != keep:
        rec.fail("from_dict:modified-the-structure-it-was-given", {"before": keep, "after": obj})
        return
    # the same structure can be used again
    try:
        t3 = Tree.from_dict(obj, mapper=dmap) if flav == "obj" else Tree.from_dict(obj)
        if t3.count != t2.count:
            rec.fail("from_dict:second-use-of-the-structure-differs", [t2.count, t3.count])
            return
    except Exception as e:  # noqa: BLE001
        rec.fail("from_dict:second-use-raises", repr(e))
        return
    w2 = walk(t2)
    if type(t2) is not Tree:
        rec.fail("from_dict:class", repr(type(t2)))
    if flav != "obj" and w.pre:
        # (a) the node-level twin: the structure is grafted below a childless node of a tree that already has nodes
        t4 = Tree("host-tree")
        host = t4.add("host-node")
        t4.add("another-node").add("x")
        try:
            host.from_dict(obj)
        except Exception as e:  # noqa: BLE001
            rec.fail("node.from_dict:raises", repr(e)[:200])
            return
        w4 = walk(t4)

        def v_(wk, n):
            return [n.data, n.data_id, [v_(wk, c) for c in wk.kids[id(n)]]]

        if [v_(w4, c) for c in w4.kids[id(host)]] != [v_(w2, c) for c in w2.kids[id(None)]]:
            rec.fail("node.from_dict:differs-from-Tree.from_dict", None)
            return
        # (b) a hand-made structure may use ONE dict object at several places (two leaf clones): same result
        leaves = []

        def collect_leaves(items):
            for it in items:
                if it.get("children"):
                    collect_leaves(it["children"])
                else:
                    leaves.append((items, it))

        import copy as _copy

        obj_b = _copy.deepcopy(obj)
        collect_leaves(obj_b)
        aliased = 0
        for i, (lst_i, it_i) in enumerate(leaves):
            for lst_j, it_j in leaves[i + 1:]:
                if it_i == it_j and it_i is not it_j and lst_i is not lst_j:
                    lst_j[[k for k, x in enumerate(lst_j) if x is it_j][0]] = it_i
                    aliased += 1
                    break
            if aliased:
                break
        if aliased:
            rec.cls("structure-with-one-dict-object-at-two-places")
            try:
                t5 = Tree.from_dict(obj_b)
            except Exception as e:  # noqa: BLE001
                rec.fail("from_dict:aliased-sub-dict:raises", repr(e)[:200])
                return
            w5 = walk(t5)
            if [v_(w5, c) for c in w5.kids[id(None)]] != [v_(w2, c) for c in w2.kids[id(None)]]:
                rec.fail("from_dict:aliased-sub-dict:differs", None)
                return

    from vlib.serial import Tag

    def view(wk, n):
        d = n.data
        val = (type(d).__name__, d.guid, d.name) if isinstance(d, Person) else d
        did = n.data_id
        if type(d) is Tag:
            # the dict form carries str(data): that text is what from_dict() gets (and derives the data_id from,
            # unless an explicit id was stored)
            val = str(d)
            did = did if did != hash(d) else hash(val)
        return [val, did, [view(wk, c) for c in wk.kids[id(n)]]]

    v1 = [view(w, n) for n in w.kids[id(None)]]
    v2 = [view(w2, n) for n in w2.kids[id(None)]]
    if v1 != v2:
        rec.fail("roundtrip:shape-data-ids", {"src": v1, "loaded": v2})
        return

    def partition(wk):
        groups = {}
        for i, n in enumerate(wk.pre):
            groups.setdefault(n.data_id, []).append(i)
        return sorted(groups.values())

    if partition(w) != partition(w2):
        rec.fail("roundtrip:clone-partition", {"src": partition(w), "loaded": partition(w2)})
    for n in w2.pre:
        grp = t2.find_all(data_id=n.data_id)
        if not any(x is n for x in grp):
            rec.fail("roundtrip:index", repr(n))
            break
    if t2.count != len(w.pre):
        rec.fail("roundtrip:count", [t2.count, len(w.pre)])


@st.composite
def hyp_cases(draw, tier):
    flav = draw(st.sampled_from(["str", "str", "obj", "dictwrap"]))
    if flav == "dictwrap":
        from vlib.build import ALPHA as _A

        spec = draw(gen.forest_specs(max_nodes=12, max_depth=4, max_width=4, min_nodes=2, alphabet=_A))
        return {"spec": spec, "flavour": flav, "strip": draw(st.lists(st.integers(0, 7), min_size=1, max_size=3))}
    opts = gen.node_opts(explicit_ids=True) if flav == "str" else None
    from vlib.build import ALPHA

    spec = draw(gen.forest_specs(max_nodes=16, max_depth=5, max_width=4, opts=opts, alphabet=ALPHA + ['q"t', "b\\s", "n\nl", " sp ", ""]))
    gen.fix_sibling_ids(spec)
    case = {"spec": spec, "flavour": flav, "json": draw(st.booleans())}
    if flav == "str" and draw(st.sampled_from([0, 0, 1])):
        case["subclass"] = True
    if flav == "str" and draw(st.sampled_from([0, 0, 1])):
        case["tags"] = True
    if flav == "obj":
        case["style"] = draw(st.sampled_from(["inplace", "newdict", "guidkey", "refs"]))
        case["falsy"] = draw(st.booleans())
    elif draw(st.sampled_from([0, 0, 1])):
        # a falsy explicit data_id (0) on one node
        flat = []

        def collect(nodes):
            for n in nodes:
                flat.append(n)
                collect(n[1])

        collect(spec)
        if flat:
            n = flat[draw(st.integers(0, len(flat) - 1))]
            del n[2:]
            n.append({"id": 0})
            gen.fix_sibling_ids(spec)
    if draw(st.sampled_from([0] * 9 + [1])):
        case["emptied"] = draw(st.sampled_from(["clear", "remove"]))
    elif draw(st.sampled_from([0, 0, 1])):
        case["rearrange"] = draw(st.lists(st.tuples(st.sampled_from(["sort", "move", "move", "prepend"]), st.integers(0, 15), st.integers(0, 15)).map(list),
                                          min_size=1, max_size=4))
    return case


# (what round 8 added to the case domain; part of the evidence text)
RULE_ROUND8 = ' One generated forest in 20 (60 in the thorough tier) is a BIG one (gen.big_specs: a child list of 11..300 nodes, that many clones of one data object, more than 256 nodes), with node references aimed at notable positions of the long child lists. A third of the string cases hold instances of a str subclass whose str() text differs from the value: the dict form carries str(data), the round trip reproduces that text.'
RULE = RULE + RULE_ROUND8

RULE_ROUND9 = ' node.from_dict() below a childless node of a populated tree gives what Tree.from_dict() gives; a structure that uses one dict object at two places (leaf clones) is accepted; two trees built from one DictWrapper structure with the library mapper are independent of it and of each other.'
RULE = RULE + RULE_ROUND9

PARTS = [
    Part("dict-form", run, strategy=lambda tier: hyp_cases(tier), n={"quick": 2000, "thorough": 200000}),
]
