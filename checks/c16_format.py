"""C16 - pretty printing renders the shape faithfully (DESIGN section 3, C16)."""

from __future__ import annotations

import functools

from hypothesis import strategies as st

from vlib import enumer, gen
from vlib.build import Flavour, build
from vlib.core import Part, nested_part
from vlib.observe import walk

from nutree.common import CONNECTORS

ID = "C16"
LEVEL = "exploration"
TECHNIQUE = 'bounded-exhaustive + Hypothesis; reference renderer of the documented prefix grammar and a prefix decoder'
LEVEL_TEXT = 'exploration with an exhaustive part: all forests up to the bound x starts x 29 styles x title/add_self; the decoder reconstructs the shape from the prefixes alone'
RULE = (
    "case = (forest, typed?, options); exhaustive part: every ordered forest with <= N nodes x every start (tree, "
    "each node) x every style of the CONNECTORS table + 'list' x title in {default, False, True, text} (tree) / "
    "add_self in {True, False} (node); Hypothesis part: deeper trees, custom 4- and 6-tuples, callable/format repr, "
    "join strings, typed trees. Oracle 1: reference renderer of the documented prefix grammar, compared line by "
    "line; oracle 2: prefix decoder rebuilds depth / last-sibling / has-children flags and the shape from the "
    "prefixes alone (styles with distinguishable segments). Non-trivial: rendered branch has depth >= 3 and a "
    "non-last inner node; distinct = distinct (forest, start). Half of the random cases first start a rendering that "
    "is not completed (a dropped format_iter() generator, a repr callback raising below the top level). Part render-mutate-render renders ONE tree (tree and "
    "one start node, 2-3 generated option sets, one of them without title line) before a generated mutation history "
    "(move, remove, sort, clear, add, ...), after a generated subset of its steps and at its end - also trees that "
    "were emptied again (non-trivial there: >= 2 renderings, one of a branch as above)."
)
ASSUMPTIONS = [
    "labels contain none of the connector characters and not the join string",
    "title='' and other falsy-but-not-False titles are unspecified and not generated",
]
EXHAUSTIVE_NOTE = {"quick": "all ordered forests with <= 5 nodes x starts x 29 styles x title/add_self", "thorough": "all ordered forests with <= 8 nodes x starts x 29 styles x title/add_self"}

STYLES = list(CONNECTORS.keys())


def resolve_style(style):
    if isinstance(style, (list, tuple)):
        return tuple(style)
    return CONNECTORS[style or "round43"]


def segs(style):
    st_ = resolve_style(style)
    if len(st_) == 4:
        s0, s1, s2, s3 = st_
        return s0, s1, s2, s3, s2, s3
    return st_


def ref_lines(w, roots, style, top_has_connector):
    """Reference renderer: (prefix, node) per displayed node in pre-order.
    `roots`: displayed top nodes.  If top_has_connector (tree with title) the
    top nodes are drawn as children of the title line."""
    s0, s1, s2, s3, s4, s5 = segs(style)
    out = []

    def is_last(n):
        sibs = w.kids[id(w.parent[id(n)])]
        return sibs[-1] is n

    def own(n):
        has = bool(w.kids[id(n)])
        if is_last(n):
            return s4 if has else s2
        return s5 if has else s3

    def rec(n, anc_prefix, with_conn):
        out.append(((anc_prefix + own(n)) if with_conn else "", n))
        if with_conn:
            child_prefix = anc_prefix + (s0 if is_last(n) else s1)
        else:
            child_prefix = ""
        for c in w.kids[id(n)]:
            rec(c, child_prefix, True)

    for r in roots:
        rec(r, "", top_has_connector)
    return out


def decodable(style):
    s0, s1, s2, s3, s4, s5 = segs(style)
    six = len(resolve_style(style)) == 6
    owns = {s2, s3, s4, s5} if six else {s2, s3}
    if len(s0) != len(s1) or s0 == s1 or len(s0) == 0:
        return False
    if len({len(x) for x in owns}) != 1 or len(owns) != (4 if six else 2):
        return False
    return True


def decode_prefix(prefix, style):
    """-> (ancestor_last_flags, own_last, own_has_children|None) or None."""
    s0, s1, s2, s3, s4, s5 = segs(style)
    six = len(resolve_style(style)) == 6
    if prefix == "":
        return ([], None, None)
    wl = len(s2)
    tail, head = prefix[-wl:], prefix[:-wl]
    if tail == s2:
        last, has = True, (False if six else None)
    elif tail == s3:
        last, has = False, (False if six else None)
    elif six and tail == s4:
        last, has = True, True
    elif six and tail == s5:
        last, has = False, True
    else:
        return None
    wa = len(s0)
    if len(head) % wa:
        return None
    flags = []
    for i in range(0, len(head), wa):
        ch = head[i : i + wa]
        if ch == s0:
            flags.append(True)
        elif ch == s1:
            flags.append(False)
        else:
            return None
    return (flags, last, has)


def shape_from_depths(depths):
    """pre-order depth sequence -> nested child-count shape (list of lists)."""
    root = []
    stack = [(-1, root)]
    for d in depths:
        while stack and stack[-1][0] >= d:
            stack.pop()
        if not stack or stack[-1][0] != d - 1:
            return None
        node = []
        stack[-1][1].append(node)
        stack.append((d, node))
    return root


def real_shape(w, roots):
    return [real_shape(w, w.kids[id(r)]) for r in roots]


def _paren(left, right, node):
    return f"{left}{node.data}{right}"


class _Paren:
    def render(self, node):
        return f"({node.data})"

    __call__ = render


def check_one(rec, tree, w, start, style, title, add_self, repr_kind, join, typed):
    """One format() call against both oracles. Returns number of evaluations."""
    is_tree = start is None
    if typed:
        default_r = lambda n: f"{n.kind} → {n.data}"  # noqa: E731
    else:
        default_r = lambda n: f"{n.data!r}"  # noqa: E731
    if repr_kind == "default":
        rarg, rfun = None, default_r
    elif repr_kind == "fmt":
        rarg, rfun = "{node.data}", (lambda n: f"{n.data}")
    elif repr_kind == "fmt2":
        rarg, rfun = "<{node.name}>", (lambda n: f"<{n.data}>")
    elif repr_kind == "trailing-space":
        rarg, rfun = "{node.data}  ", (lambda n: f"{n.data}  ")
    elif repr_kind == "sometimes-empty":
        rfun = lambda n: "" if f"{n.data}"[-1:] in "02468ac" else f"{n.data}"  # noqa: E731
        rarg = rfun
    elif repr_kind == "callable-partial":
        rfun = lambda n: f"({n.data})"  # noqa: E731
        rarg = functools.partial(_paren, "(", ")")  # "a callback": any callable, not only def / lambda
    elif repr_kind == "callable-method":
        rfun = lambda n: f"({n.data})"  # noqa: E731
        rarg = _Paren().render
    elif repr_kind == "callable-object":
        rfun = lambda n: f"({n.data})"  # noqa: E731
        rarg = _Paren()
    else:
        rfun = lambda n: f"({n.data})"  # noqa: E731
        rarg = rfun
    kw = {}
    if rarg is not None:
        kw["repr"] = rarg
    if style is not None:
        kw["style"] = style
    if join is not None:
        kw["join"] = join
    j = "\n" if join is None else join

    # ---- expected ------------------------------------------------------------------
    exp_lines = []
    if is_tree:
        if title is not None:
            kw["title"] = title
        eff_title = title
        if title is None:
            eff_title = False if style == "list" else True
        if eff_title:
            exp_lines.append(f"{tree}" if eff_title is True else f"{eff_title}")
        roots = w.kids[id(None)]
        top_conn = eff_title is not False
    else:
        kw["add_self"] = add_self
        roots = [start] if add_self else w.kids[id(start)]
        top_conn = False
    if style == "list":
        body = [("", n) for n in pre_of(w, roots)]
    else:
        body = ref_lines(w, roots, style, top_conn)
    exp_lines += [p + rfun(n) for p, n in body]
    exp = j.join(exp_lines)

    got = tree.format(**kw) if is_tree else start.format(**kw)
    desc = {"style": style if isinstance(style, str) or style is None else list(style), "title": title,
            "add_self": add_self, "start": "tree" if is_tree else start.data, "repr": repr_kind, "join": join}
    if got != exp:
        bucket = "render:list-style" if style == "list" else "render"
        if is_tree:
            bucket += ":tree"
        rec.fail(bucket, dict(desc, got=got, exp=exp))
        return 1
    # format_iter agrees with format
    it = list(tree.format_iter(**{k: v for k, v in kw.items() if k != "join"})) if is_tree else list(
        start.format_iter(**{k: v for k, v in kw.items() if k != "join"}))
    if it != exp_lines:
        rec.fail("format_iter!=format", dict(desc, got=it, exp=exp_lines))
        return 2

    # ---- two renderings of the same tree alive at once (side-by-side listing): each keeps its own style ----------
    if (isinstance(style, str) and style != "list") or style is None:
        # (the list style is left out: its default for the title line differs)
        style2 = "ascii11" if style != "ascii11" else "round43"
        body2 = [("", n) for n in pre_of(w, roots)] if style2 == "list" else ref_lines(w, roots, style2, top_conn)
        exp2 = list(exp_lines[: len(exp_lines) - len(body)]) + [p + rfun(n) for p, n in body2]
        kw1 = {k: v for k, v in kw.items() if k != "join"}
        kw2 = dict(kw1, style=style2)
        g1 = tree.format_iter(**kw1) if is_tree else start.format_iter(**kw1)
        g2 = tree.format_iter(**kw2) if is_tree else start.format_iter(**kw2)
        got1, got2 = [], []
        for a, b in zip(g1, g2):
            got1.append(a)
            got2.append(b)
        if got1 != exp_lines or got2 != exp2:
            rec.fail("format_iter:two-renderings-in-lock-step", dict(desc, got=[got1, got2], exp=[exp_lines, exp2], style2=style2))
            return 3

    # ---- oracle 2: decode the shape from the prefixes alone ----------------------------
    if style != "list" and decodable(style):
        nodes = [n for _, n in body]
        has_title_line = is_tree and (title is None or title is not False)
        lines = got.split(j) if (nodes or has_title_line) else []
        if has_title_line:
            lines = lines[1:]
        if len(lines) != len(nodes):
            rec.fail("decode:line-count", desc)
            return 3
        depths, flags = [], []
        for line, n in zip(lines, nodes):
            r = rfun(n)
            if not line.endswith(r):
                rec.fail("decode:rendering-not-at-end", dict(desc, line=line))
                return 3
            dec = decode_prefix(line[: len(line) - len(r)], style)
            if dec is None:
                rec.fail("decode:unparsable-prefix", dict(desc, line=line))
                return 3
            anc, last, has = dec
            depths.append(0 if last is None else len(anc) + 1)
            flags.append((anc, last, has))
        if top_conn:
            depths = [d - 1 for d in depths]  # the title line is the displayed root
        shp = shape_from_depths(depths)
        if shp != real_shape(w, roots):
            rec.fail("decode:shape", dict(desc, depths=depths, got=got))
            return 3
        # flags must agree with the tree
        for (anc, last, has), n in zip(flags, nodes):
            if last is None:
                continue
            sibs = w.kids[id(w.parent[id(n)])]
            if last != (sibs[-1] is n):
                rec.fail("decode:own-last-flag", dict(desc, node=n.data, got=got))
                return 3
            if has is not None and has != bool(w.kids[id(n)]):
                rec.fail("decode:has-children-flag", dict(desc, node=n.data, got=got))
                return 3
            # ancestors, nearest last in list
            chain = []
            p = w.parent[id(n)]
            while p is not None:
                chain.append(p)
                p = w.parent[id(p)]
            chain.reverse()
            shown = chain[len(chain) - len(anc):] if anc else []
            for flag, a in zip(anc, shown):
                asibs = w.kids[id(w.parent[id(a)])]
                if flag != (asibs[-1] is a):
                    rec.fail("decode:ancestor-last-flag", dict(desc, node=n.data, got=got))
                    return 3
        return 3
    return 2


def pre_of(w, roots):
    out = []

    def rec_(n):
        out.append(n)
        for c in w.kids[id(n)]:
            rec_(c)

    for r in roots:
        rec_(r)
    return out


def depth_of(w, roots):
    if not roots:
        return 0
    return 1 + max(depth_of(w, w.kids[id(r)]) for r in roots)


def nontrivial(w, roots):
    if depth_of(w, roots) < 3:
        return False
    for n in pre_of(w, roots):
        sibs = w.kids[id(w.parent[id(n)])]
        if w.kids[id(n)] and sibs[-1] is not n:
            return True
    return False


def run_exhaustive(case, rec):
    spec, start_i = case["spec"], case["start"]
    tree, nodes = build(spec, name="T")
    w = walk(tree)
    start = None if start_i < 0 or not nodes else nodes[start_i]
    roots = w.kids[id(None)] if start is None else [start]
    rec.nt(nontrivial(w, roots))
    ev = 0
    for style in [None, "list"] + STYLES:
        if start is None:
            for title in (None, False, True, "My Title"):
                ev += check_one(rec, tree, w, None, style, title, True, "fmt", None, False)
        else:
            for add_self in (True, False):
                ev += check_one(rec, tree, w, start, style, None, add_self, "fmt", None, False)
        if rec.failed:
            break
    rec.evals += ev


class _Abort(Exception):
    pass


def abandoned_renderings(tree, w, how):
    """Renderings that do not run to completion: a line generator that is dropped half-way, a repr callback that
    raises below the top level.  Whatever they leave behind must not show in later renderings (of any tree)."""
    deep = [n for n in w.pre if w.depth[id(n)] >= 3]
    if how in (1, 3):
        it = tree.format_iter(repr="{node.data}")
        for _ in range(max(2, len(w.pre) - 1)):
            if next(it, None) is None:
                break
        it.close()
    if how in (2, 3) and deep:
        victim = deep[-1]

        def bad_repr(n):
            if n is victim:
                raise _Abort()
            return f"{n.data}"

        try:
            tree.format(repr=bad_repr)
        except _Abort:
            pass


def run_random(case, rec):
    typed = case["typed"]
    tree, nodes = build(case["spec"], typed=typed, name="T", flavour=Flavour(case.get("flavour", "str")))
    w = walk(tree)
    if case.get("abandon"):
        abandoned_renderings(tree, w, case["abandon"])
        rec.cls("after-an-abandoned-rendering")
    start_i = case["start"]
    start = None if start_i < 0 or not nodes else nodes[start_i % len(nodes)]
    roots = w.kids[id(None)] if start is None else [start]
    rec.nt(nontrivial(w, roots))
    style = case["style"]
    if isinstance(style, list):
        style = tuple(style)
        rec.cls(f"custom-{len(style)}-tuple")
    else:
        rec.cls("named-style")
    rec.cls("typed" if typed else "plain")
    rec.cls(f"repr={case['repr']}")
    if gen.spec_has_clone(case["spec"]):
        rec.cls("has-clones-or-equal-data")
    rec.evals += check_one(rec, tree, w, start, style, case["title"], case["add_self"], case["repr"], case["join"], typed)


def enum_cases(tier):
    for spec in enumer.forests_upto(5 if tier == "quick" else 8):
        n = enumer.spec_size(spec)
        for s in range(-1, n):
            yield {"spec": spec, "start": s}


SEG_CHARS = "|`+-.:=~#"


@st.composite
def custom_style(draw):
    six = draw(st.booleans())
    wa = draw(st.integers(1, 3))
    wo = draw(st.integers(1, 3)) if six else wa
    a = draw(st.lists(st.text(SEG_CHARS + " ", min_size=wa, max_size=wa), min_size=2, max_size=2, unique=True))
    o = draw(st.lists(st.text(SEG_CHARS, min_size=wo, max_size=wo), min_size=4 if six else 2, max_size=4 if six else 2, unique=True))
    if six and draw(st.sampled_from([0, 1])):
        # a 6-segment style that re-uses ONE string object for two of its segments (as a tuple written in code does)
        i, j = draw(st.sampled_from([(2, 0), (2, 0), (3, 1), (2, 1), (3, 0)]))
        o[i] = o[j]
    return a + o


@st.composite
def hyp_cases(draw, tier):
    typed = draw(st.booleans())
    deep = draw(st.booleans())
    opts = gen.node_opts(explicit_ids=False, kinds=True) if typed else None
    labels = draw(st.sampled_from(["unique", "clones", "eqsib"]))
    uniq = labels == "unique"
    alpha = ["a", "b", "c", "d"]
    if deep:
        spec = draw(gen.forest_specs(max_nodes=16, max_depth=9, max_width=2, unique=uniq, min_nodes=3, opts=opts, alphabet=alpha))
    else:
        spec = draw(gen.forest_specs(max_nodes=18, max_depth=5, max_width=4, unique=uniq, min_nodes=3, opts=opts, alphabet=alpha, big=8))
    if labels == "eqsib":
        # equal data under distinct explicit data_ids among siblings
        counter = [0]

        def eq_(nodes):
            for j, n in enumerate(nodes):
                if j > 0 and draw(st.integers(0, 2)) == 0:
                    n[0] = nodes[draw(st.integers(0, j - 1))][0]
                    counter[0] += 1
                    o = dict(n[2]) if len(n) > 2 and n[2] else {}
                    o["id"] = f"E{counter[0]}"
                    del n[2:]
                    n.append(o)
                eq_(n[1])

        eq_(spec)
    n = gen.spec_nodes(spec)
    style = draw(st.one_of(st.sampled_from(STYLES), st.sampled_from(STYLES), custom_style(), custom_style(), st.just("list"), st.none()))
    return {
        "spec": spec,
        "typed": typed,
        "start": draw(st.integers(-1, max(0, n - 1))),
        "style": style,
        "title": draw(st.sampled_from([None, False, True, "Title X"])),
        "add_self": draw(st.booleans()),
        "repr": draw(st.sampled_from(["default", "fmt", "fmt2", "callable", "trailing-space", "sometimes-empty", "callable-partial", "callable-method", "callable-object"])),
        "join": draw(st.sampled_from([None, "\n", ", ", "\r\n", ";"])),
        "abandon": draw(st.sampled_from([0, 0, 0, 1, 2, 3])),
        # data objects whose format() text is not their str() text
        "flavour": draw(st.sampled_from(["str", "str", "money"])),
    }


def run_requery(case, rec):
    """Render, restructure the tree (move, remove, sort, clear, ...), render the same tree again."""
    from vlib import requery

    typed = bool(case.get("typed"))
    seen = []

    tree_box = []

    def check(tree, rec, eng):
        w = walk(tree)
        if not tree_box:
            tree_box.append(tree)
        start = w.pre[case["start"] % len(w.pre)] if (w.pre and case["start"] >= 0) else None
        seen.append(nontrivial(w, w.kids[id(None)]))
        if not w.pre:
            rec.cls("emptied-tree" if eng.steps else "empty-tree")
        ev = 0
        for o in case["options"]:
            style = tuple(o["style"]) if isinstance(o["style"], list) else o["style"]
            ev += check_one(rec, tree, w, None, style, o["title"], True, o["repr"], o["join"], typed)
            if start is not None and not rec.failed:
                ev += check_one(rec, tree, w, start, style, None, o["add_self"], o["repr"], o["join"], typed)
            if rec.failed:
                break
        rec.evals += ev

    q = requery.run(case, rec, check)
    rec.nt(bool(q and q >= 2 and any(seen)))
    # directed last step: a leaf that is the only child of its parent is removed with keep_children=True (there is
    # nothing to keep); the parent is a leaf afterwards and must be drawn as one - also in the compact styles, whose
    # connectors show whether a node has children
    if not rec.failed and tree_box:
        tree = tree_box[0]
        w = walk(tree)
        only = [n for n in w.pre if not w.kids[id(n)] and w.parent[id(n)] is not None and len(w.kids[id(w.parent[id(n)])]) == 1]
        if only and not w.problems:
            victim = only[case["start"] % len(only)]
            victim.remove(keep_children=True)
            w = walk(tree)
            ev = 0
            for style in ("round43c", "lines32c", None):
                ev += check_one(rec, tree, w, None, style, False, True, "fmt", None, typed)
                if rec.failed:
                    break
            rec.evals += ev
            rec.cls("after-un-nesting-a-childless-only-child")


@st.composite
def requery_cases(draw, tier):
    from vlib import requery

    case = draw(requery.cases(max_ops=6, max_nodes=9,
                              kinds=["move"] * 5 + ["remove"] * 2 + ["add"] * 2 + ["sort"] * 2 + ["clear", "remove_children", "add_node", "prepend_sibling", "set_data"]))
    case["start"] = draw(st.integers(-1, 8))
    one = st.fixed_dictionaries({
        "style": st.one_of(st.sampled_from(STYLES), custom_style(), st.just("list"), st.none()),
        "title": st.sampled_from([None, False, True, "Title X"]),
        "add_self": st.booleans(),
        "repr": st.sampled_from(["default", "fmt", "fmt2"]),
        "join": st.sampled_from([None, "\n", ", "]),
    })
    # the first option set renders without a title line (the case in which an emptied tree has no line at all)
    first = draw(one)
    first["title"] = False
    case["options"] = [first] + draw(st.lists(one, min_size=1, max_size=2))
    return case


# (what round 8 added to the case domain; part of the evidence text)
RULE_ROUND8 = ' One generated forest in 20 (60 in the thorough tier) is a BIG one (gen.big_specs: a child list of 11..300 nodes, that many clones of one data object, more than 256 nodes), with node references aimed at notable positions of the long child lists. A third of the random cases use data objects whose format() text differs from their str() text. Part ascii-stdout: random-options once more in a child interpreter with PYTHONIOENCODING=ascii (format() returns text; it does not depend on what sys.stdout can encode).'
RULE = RULE + RULE_ROUND8

RULE_ROUND9 = ' repr callables are lambdas, functools.partial objects, bound methods and instances with __call__; two format_iter() runs of one tree with different styles are consumed in lock step; half of the custom 6-segment styles use one str object for two segments.'
RULE = RULE + RULE_ROUND9

PARTS = [
    Part("exhaustive", run_exhaustive, enum=enum_cases),
    Part("random-options", run_random, strategy=lambda tier: hyp_cases(tier), n={"quick": 2000, "thorough": 200000}),
    Part("render-mutate-render", run_requery, strategy=lambda tier: requery_cases(tier), n={"quick": 400, "thorough": 30000}),
    nested_part("C16", ["random-options"], {"PYTHONIOENCODING": "ascii"}, "ascii-stdout", "sys.stdout cannot encode the box drawing characters; format() returns text, it does not print"),
]
