"""C12 - the native file format follows its documented layout, both ways (DESIGN section 3, C12)."""

from __future__ import annotations

import io
import json
import tempfile

from hypothesis import strategies as st

from vlib import gen, serial
from vlib.core import Part, nested_part
from vlib.observe import walk

from nutree import Tree, TypedTree

ID = "C12"
LEVEL = "exploration"
TECHNIQUE = 'property-based testing with an independent decoder and encoder of the documented layout; literal guide documents; malformed and byte-damaged documents'
LEVEL_TEXT = 'exploration: writer output is decoded by an independent implementation of the documented layout, reader input is produced by an independent encoder, so a change made consistently to writer and reader is still caught'
RULE = (
    "writer part: (profile, tree spec, storage configuration) as in C05 (incl. ASCII-only streams, a lone-surrogate "
    "string and an earlier save() that shared the meta dict object); the written JSON (decompressed with zipfile "
    "directly) is decoded by an independent decoder of the documented layout: header ($generator nutree/..., "
    "$format_version 1.0, $key_map/$value_map exactly the maps in use, user meta), one entry per node in pre-order, "
    "1-based parent positions, int payload exactly for a repeated data_id whose kind equals that of the first "
    "occurrence (= that occurrence's position), plain string vs dict payloads, keys/values shortened exactly as the "
    "header declares. mutated-documents part: byte-level damage (delete / duplicate / replace / insert) to valid "
    "documents - load() must raise or return a tree that satisfies the C01-C03 predicates. reader part: an "
    "independent encoder renders tree specs to the documented layout with free "
    "formatting choices (indent, key order, maps on/off, clone references on/off, older generator strings) and "
    "load() must return the described tree - from a stream, from a plain file and from a zip archive whose single "
    "member has any name, under any file name, as str or Path - (a third of the cases pass a file_meta dict that already received the "
    "header of another, compact document); plus documents in the guide's mixed layout (plain-string entries next to object entries, loaded by Tree and by "
    "TypedTree with one mapper that is only asked for the object entries), plus the four literal documents of the user guide and generated JSON "
    "without a valid nutree header, which must be rejected. Non-trivial: document with a clone reference and a dict "
    "entry; distinct = distinct case."
)
ASSUMPTIONS = [
    "json / zipfile of CPython are the trusted codecs",
    "'same data' in the clone-reference rule means same data_id (same clone group)",
    "a typed tree's default value_map lists the distinct kinds in any order",
    "the second literal example of ug_serialize.rst has a trailing comma in its header, which is removed",
]


# ==================================================================================
# independent decoder (writer side)
# ==================================================================================
def expected_maps(prof, tree, cfg):
    cls = prof.cls()
    km = cfg.get("key_map", True)
    if km is True:
        key_map = dict(cls.DEFAULT_KEY_MAP)
    elif km is False:
        key_map = {}
    else:
        key_map = dict(km)
    vm = serial.resolve_value_map(cfg.get("value_map", True), tree, prof)
    if cfg.get("value_map_dup") is not None:
        vm = serial.with_duplicate(vm, cfg["value_map_dup"])  # (the header shows the caller's list as it was passed)
    vm = serial.with_padding(vm, cfg.get("value_map_pad"))
    if vm is True:
        value_map = {k: list(v) for k, v in cls.DEFAULT_VALUE_MAP.items()}
        kind_auto = prof.typed and "kind" not in value_map
    elif vm is False:
        value_map = {}
        kind_auto = False
    else:
        value_map = {k: list(v) for k, v in vm.items()}
        kind_auto = prof.typed and "kind" not in value_map
    return key_map, value_map, kind_auto


def run_writer(case, rec):
    prof = serial.Profile(case["profile"])
    tree = prof.build(case["spec"], late_move=case.get("late_move"))
    cfg = case["config"]
    w = walk(tree)
    key_map, value_map, kind_auto = expected_maps(prof, tree, cfg)
    with tempfile.TemporaryDirectory(prefix="verif_c12_") as tmp:
        src = serial.save_tree(tree, prof, cfg, tmp, 0)
        doc = serial.read_document(src)
    rec.evals += 1
    rec.cls(f"profile={prof.name}")
    if not isinstance(doc, dict) or set(doc) != {"meta", "nodes"}:
        rec.fail("doc:top-level-keys", list(doc) if isinstance(doc, dict) else repr(type(doc)))
        return
    meta, nodes = doc["meta"], doc["nodes"]
    # ---- header -----------------------------------------------------------------------
    if not isinstance(meta.get("$generator"), str) or not meta["$generator"].startswith("nutree/"):
        rec.fail("header:$generator", meta.get("$generator"))
    if meta.get("$format_version") != "1.0":
        rec.fail("header:$format_version", meta.get("$format_version"))
    if key_map:
        if meta.get("$key_map") != key_map:
            rec.fail("header:$key_map", [meta.get("$key_map"), key_map])
            return
    elif "$key_map" in meta:
        rec.fail("header:$key_map-present-though-unused", meta["$key_map"])
        return
    hv = meta.get("$value_map")
    if kind_auto:
        kinds = {n.kind for n in w.pre}
        ok = isinstance(hv, dict) and isinstance(hv.get("kind"), list) and set(hv["kind"]) == kinds and len(set(hv["kind"])) == len(hv["kind"])
        if not ok or {k: v for k, v in hv.items() if k != "kind"} != value_map:
            rec.fail("header:$value_map(typed-default-kind)", [hv, value_map, sorted(kinds)])
            return
        value_map = dict(value_map, kind=list(hv["kind"]))
    elif value_map:
        if hv != value_map:
            rec.fail("header:$value_map", [hv, value_map])
            return
    elif hv is not None:
        rec.fail("header:$value_map-present-though-unused", hv)
        return
    for k, v in (cfg.get("meta") or {}).items():
        if meta.get(k) != v:
            rec.fail("header:user-meta", [k, meta.get(k), v])
    extra = set(meta) - {"$generator", "$format_version", "$key_map", "$value_map"} - set(cfg.get("meta") or {})
    if extra:
        rec.fail("header:unexpected-entries", sorted(extra))

    # ---- node list ------------------------------------------------------------------------
    if not isinstance(nodes, list) or len(nodes) != len(w.pre):
        rec.fail("nodes:length", [len(nodes) if isinstance(nodes, list) else None, len(w.pre)])
        return
    pos = {id(n): i for i, n in enumerate(w.pre, 1)}
    inv_key = {v: k for k, v in key_map.items()}
    first_occ = {}  # data_id -> (position, kind)
    has_ref = has_dict = False
    for i, (n, entry) in enumerate(zip(w.pre, nodes), 1):
        if not isinstance(entry, list) or len(entry) != 2:
            rec.fail("entry:not-a-pair", entry)
            return
        pidx, payload = entry
        p = w.parent[id(n)]
        exp_p = 0 if p is None else pos[id(p)]
        if pidx != exp_p or not isinstance(pidx, int) or isinstance(pidx, bool) or pidx >= i:
            rec.fail("entry:parent-position", {"i": i, "got": pidx, "exp": exp_p})
            return
        kind = n.kind if prof.typed else None  # (on a plain tree with forward_attrs, node.kind would be the data's attribute)
        fo = first_occ.get(n.data_id)
        expect_ref = fo is not None and fo[1] == kind
        if fo is None:
            first_occ[n.data_id] = (i, kind)
        if isinstance(payload, int) and not isinstance(payload, bool):
            has_ref = True
            if not expect_ref:
                rec.fail("entry:reference-though-not-a-repeated-occurrence-of-equal-kind", {"i": i, "payload": payload, "first": fo, "kind": kind})
                return
            if payload != fo[0]:
                rec.fail("entry:reference-not-to-first-occurrence", {"i": i, "payload": payload, "first": fo[0]})
                return
            continue
        if expect_ref:
            rec.fail("entry:repeated-occurrence-not-stored-as-reference", {"i": i, "payload": payload, "first": fo})
            return
        # full entry
        exp_fields = {}
        d = n.data
        custom_id = n.data_id != hash(d)
        if isinstance(d, str):
            if not custom_id and not prof.typed:
                if payload != d or not isinstance(payload, str):
                    rec.fail("entry:plain-string-expected", {"i": i, "payload": payload, "data": d})
                    return
                continue
            exp_fields["str"] = d
        if prof.name == "dictwrap":
            exp_fields = prof.mapper_fields(n)
        else:
            if custom_id:
                exp_fields["data_id"] = n.data_id
            exp_fields.update(prof.mapper_fields(n))
            if prof.typed:
                exp_fields["kind"] = n.kind
        if not isinstance(payload, dict):
            rec.fail("entry:dict-expected", {"i": i, "payload": payload})
            return
        has_dict = True
        # shortened exactly as declared
        expanded = {}
        for k, v in payload.items():
            if k in key_map and key_map[k] != k and k not in inv_key:
                rec.fail("entry:long-key-although-key_map-shortens-it", {"i": i, "key": k, "payload": payload})
                return
            lk = inv_key.get(k, k)
            if lk in value_map:
                if not isinstance(v, int) or isinstance(v, bool) or not (0 <= v < len(value_map[lk])):
                    rec.fail("entry:value-not-an-index-into-value_map", {"i": i, "key": lk, "value": v})
                    return
                v = value_map[lk][v]
            if lk in expanded:
                rec.fail("entry:key-twice", {"i": i, "key": lk})
                return
            expanded[lk] = v
        if expanded != exp_fields:
            rec.fail("entry:fields", {"i": i, "expanded": expanded, "exp": exp_fields, "payload": payload})
            return
    rec.nt(has_ref and has_dict)
    if has_ref:
        rec.cls("has-clone-reference")


# ==================================================================================
# independent encoder (reader side)
# ==================================================================================
def encode_document(prof, spec, opt):
    """Render `spec` in the documented layout without using nutree."""
    key_map = opt.get("key_map") or {}
    value_map = opt.get("value_map") or {}
    meta = {"$generator": opt.get("generator", "nutree/0.5.1"), "$format_version": "1.0"}
    if key_map:
        meta["$key_map"] = key_map
    if value_map:
        meta["$value_map"] = value_map
    meta.update(opt.get("meta") or {})
    nodes = []
    first = {}
    order = opt.get("key_order", 0)

    def fields_of(label, o):
        d = prof.data(label)
        f = {}
        did = o.get("id") if prof.allows_explicit_ids() else None
        if isinstance(d, str):
            f["str"] = d
            if did is not None:
                f["data_id"] = did
        elif hasattr(d, "guid"):
            f["data_id"] = d.guid
            f["type"] = "person" if isinstance(d, serial.Person) else "dept"
            f["name"] = d.name
            if isinstance(d, serial.Person):
                f["age"] = d.age
        elif isinstance(d, serial.FileSystemEntry):
            f = {"n": d.name, "d": True} if d.is_dir else {"n": d.name, "s": d.size, "m": d.mdate}
        if prof.typed:
            f["kind"] = o.get("kind") or "child"
        return f, (did if did is not None else ("auto", label))

    def rec_(items, pidx):
        for item in items:
            o = item[2] if len(item) > 2 and item[2] else {}
            f, ident = fields_of(item[0], o)
            idx = len(nodes) + 1
            kind = f.get("kind")
            fo = first.get(ident)
            if fo is not None and fo[1] == kind and opt.get("refs", True):
                nodes.append([pidx, fo[0]])
            else:
                if fo is None:
                    first[ident] = (idx, kind)
                if set(f) == {"str"} and not opt.get("dict_for_plain_str"):
                    nodes.append([pidx, f["str"]])
                else:
                    out = {}
                    keys = list(f)
                    if order == 1:
                        keys.reverse()
                    elif order == 2:
                        keys.sort()
                    for k in keys:
                        v = f[k]
                        if k in value_map:
                            v = value_map[k].index(v)
                        out[key_map.get(k, k)] = v
                    nodes.append([pidx, out])
            rec_(item[1], idx)

    rec_(spec, 0)
    doc = {"meta": meta, "nodes": nodes}
    if opt.get("nodes_first"):
        doc = {"nodes": nodes, "meta": meta}
    indent = opt.get("indent")
    return json.dumps(doc, indent=indent, ensure_ascii=opt.get("ascii", True))


def spec_view(prof, spec):
    """What the loaded tree must look like (same structure as Profile.view)."""
    out_nodes = []

    def one(item):
        o = item[2] if len(item) > 2 and item[2] else {}
        d = prof.data(item[0])
        if isinstance(d, str):
            did = o.get("id") if (prof.allows_explicit_ids() and o.get("id") is not None) else hash(d)
        elif hasattr(d, "guid"):
            did = d.guid
        else:
            did = None
        # clone groups are defined by the effective data_id (an explicit 0 on "" IS hash(""))
        out_nodes.append(("did", did) if isinstance(d, str) else (item[0], o.get("id") if prof.allows_explicit_ids() else None))
        return [prof.data_view(d), did if prof.id_is_value_derived() else None,
                (o.get("kind") or "child") if prof.typed else None, [one(c) for c in item[1]]]

    tree = [one(i) for i in spec]
    groups = {}
    for i, key in enumerate(out_nodes):
        groups.setdefault(key, []).append(i)
    return {"tree": tree, "partition": sorted(groups.values()), "count": len(out_nodes), "unique": len(groups)}


def run_reader(case, rec):
    prof = serial.Profile(case["profile"])
    spec, opt = case["spec"], case["opt"]
    text = encode_document(prof, spec, opt)
    exp = spec_view(prof, spec)
    cls = {"str": Tree, "obj": Tree, "obj_pop": Tree, "typed_str": TypedTree, "typed_obj": TypedTree, "typed_obj_pop": TypedTree, "fs": serial.FileSystemTree,
           "fs_plain": Tree}[prof.name]
    kw = {}
    if prof.name in ("obj", "typed_obj"):
        kw["mapper"] = serial.obj_deserialize_mapper
    elif prof.name == "obj_pop":
        kw["mapper"] = serial.obj_deserialize_mapper_consuming
    elif prof.name == "typed_obj_pop":
        kw["mapper"] = serial.typed_deserialize_mapper_consuming
    elif prof.name == "fs_plain":
        kw["mapper"] = serial.FileSystemTree.deserialize_mapper
    elif prof.name in ("str", "typed_str"):
        needs = '"data_id"' in text or '"' + (opt.get("key_map") or {}).get("data_id", "data_id") + '"' in text or opt.get("dict_for_plain_str")
        if needs or prof.name == "str":
            kw["mapper"] = serial.str_mapper
    meta = {}
    rec.evals += 1
    rec.cls(f"profile={prof.name}")
    if opt.get("preload"):
        # the caller's file_meta dict already received the header of another (compact) document
        Tree.load(io.StringIO(serial.PRELOAD_DOC), file_meta=meta)
        rec.cls("file_meta-dict-used-before")
    container = opt.get("container", "stream")
    if container != "stream":
        try:
            text.encode("utf8")
        except UnicodeEncodeError:
            container = "stream"  # a raw lone surrogate (non-ASCII rendering): not storable as UTF-8 by anyone
    rec.cls(f"container={container.split(':')[0]}")
    try:
        if container == "stream":
            loaded = cls.load(io.StringIO(text), file_meta=meta, **kw)
        else:
            # the document as a file of the caller's naming: plain, or the single member (of any name) of a zip archive
            import os
            import tempfile
            import zipfile
            from pathlib import Path

            with tempfile.TemporaryDirectory(prefix="verif_c12_") as tmp:
                fn = os.path.join(tmp, opt.get("file_name", "tree.nutree"))
                if container == "file":
                    with open(fn, "w", encoding="utf8") as fp:
                        fp.write(text)
                else:
                    with zipfile.ZipFile(fn, "w", compression=zipfile.ZIP_DEFLATED) as zf:
                        zf.writestr(container.split(":", 1)[1], text)
                loaded = cls.load(Path(fn) if opt.get("as_path") else fn, file_meta=meta, **kw)
    except Exception as e:  # noqa: BLE001
        rec.fail(f"reader:load-raises:{type(e).__name__}", {"exc": repr(e)[:300], "text": text[:600], "container": container})
        return
    if type(loaded) is not cls:
        rec.fail("reader:class", type(loaded).__name__)
        return
    v = prof.view(loaded)
    if prof.name == "fs":
        exp = dict(exp)
    if v["tree"] != exp["tree"]:
        rec.fail("reader:tree", {"loaded": v["tree"], "exp": exp["tree"], "text": text[:600]})
        return
    if opt.get("refs", True) or prof.id_is_value_derived():
        if v["partition"] != exp["partition"]:
            rec.fail("reader:clone-partition", {"loaded": v["partition"], "exp": exp["partition"]})
    for k, val in (opt.get("meta") or {}).items():
        if meta.get(k) != val:
            rec.fail("reader:file_meta", [k, meta.get(k), val])
    if meta.get("$generator") != opt.get("generator", "nutree/0.5.1"):
        rec.fail("reader:file_meta:$generator", meta.get("$generator"))
    has_ref = any(isinstance(e[1], int) for e in json.loads(text)["nodes"])
    has_dict = any(isinstance(e[1], dict) for e in json.loads(text)["nodes"])
    rec.nt(has_ref and has_dict)


# ==================================================================================
# literal documents of the user guide
# ==================================================================================
GUIDE_1 = """
{
    "meta": {
        "$generator": "nutree/0.5.1",
        "$format_version": "1.0",
        "foo": "bar"
    },
    "nodes": [
        [0, "A"],
        [1, "a1"],
        [2, "a11"],
        [2, "a12"],
        [1, "a2"],
        [0, "B"],
        [6, 3],
        [6, "b1"],
        [8, "b11"]
    ]
}
"""
GUIDE_2 = """
{
    "meta": {
        "$generator": "nutree/0.5.1",
        "$format_version": "1.0"
    },
    "nodes": [
        [0, { "type": "dept", "name": "Development" }],
        [1, { "type": "person", "name": "Alice", "age": 23, "guid": "{123-456}" }],
        [1, { "type": "person", "name": "Bob", "age": 32, "guid": "{234-456}" }],
        [1, { "type": "person", "name": "Charleen", "age": 43, "guid": "{345-456}" }],
        [0, { "type": "dept", "name": "Marketing" }],
        [5, 4],
        [5, { "type": "person", "name": "Dave", "age": 54, "guid": "{456-456}" }]
    ]
}
"""
GUIDE_3 = """
{
    "meta": {
        "$generator": "nutree/0.7.0",
        "$format_version": "1.0",
        "$key_map": { "type": "t", "name": "n", "age": "a", "guid": "g" }
    },
    "nodes": [
        [0, { "t": "dept", "n": "Development" }],
        [1, { "t": "person", "n": "Alice", "a": 23, "g": "{123-456}" }],
        [1, { "t": "person", "n": "Bob", "a": 32, "g": "{234-456}" }],
        [1, { "t": "person", "n": "Charleen", "a": 43, "g": "{345-456}" }],
        [0, { "t": "dept", "n": "Marketing" }],
        [5, 4],
        [5, { "t": "person", "n": "Dave", "a": 54, "g": "{456-456}" }]
    ]
}
"""
GUIDE_4 = """
{
    "meta": {
        "$generator": "nutree/0.7.0",
        "$format_version": "1.0",
        "$key_map": { "type": "t", "name": "n", "age": "a", "guid": "g" },
        "$value_map": { "type": ["dept", "person"] }
    },
    "nodes": [
        [0, { "t": 0, "n": "Development" }],
        [1, { "t": 1, "n": "Alice", "a": 23, "g": "{123-456}" }],
        [1, { "t": 1, "n": "Bob", "a": 32, "g": "{234-456}" }],
        [1, { "t": 1, "n": "Charleen", "a": 43, "g": "{345-456}" }],
        [0, { "t": 0, "n": "Marketing" }],
        [5, 4],
        [5, { "t": 1, "n": "Dave", "a": 54, "g": "{456-456}" }]
    ]
}
"""


class GPerson:
    def __init__(self, name, age, guid):
        self.name, self.age, self.guid = name, age, guid


class GDept:
    def __init__(self, name):
        self.name = name


def guide_mapper(parent, data):
    if data["type"] == "person":
        return GPerson(name=data["name"], age=data["age"], guid=data["guid"])
    return GDept(name=data["name"])


def run_guide(case, rec):
    k = case["doc"]
    text = [GUIDE_1, GUIDE_2, GUIDE_3, GUIDE_4][k]
    rec.evals += 1
    rec.nt(True)
    meta = {}
    try:
        if k == 0:
            t = Tree.load(io.StringIO(text), file_meta=meta)
        else:
            t = Tree.load(io.StringIO(text), mapper=guide_mapper, file_meta=meta)
    except Exception as e:  # noqa: BLE001
        rec.fail(f"guide-doc-{k + 1}:load-raises", repr(e)[:300])
        return
    w = walk(t)

    def one(n):
        d = n.data
        if isinstance(d, GPerson):
            v = ["person", d.name, d.age, d.guid]
        elif isinstance(d, GDept):
            v = ["dept", d.name]
        else:
            v = d
        return [v, [one(c) for c in w.kids[id(n)]]]

    got = [one(n) for n in w.kids[id(None)]]
    if k == 0:
        exp = [["A", [["a1", [["a11", []], ["a12", []]]], ["a2", []]]], ["B", [["a11", []], ["b1", [["b11", []]]]]]]
        clones = [n for n in w.pre if n.data == "a11"]
        if len(clones) != 2 or clones[0].data_id != clones[1].data_id or not clones[0].is_clone():
            rec.fail("guide-doc-1:clone", [repr(c) for c in clones])
        if meta.get("foo") != "bar":
            rec.fail("guide-doc-1:meta", meta)
    else:
        al, bo, ch, da = ["person", "Alice", 23, "{123-456}"], ["person", "Bob", 32, "{234-456}"], ["person", "Charleen", 43, "{345-456}"], ["person", "Dave", 54, "{456-456}"]
        exp = [[["dept", "Development"], [[al, []], [bo, []], [ch, []]]], [["dept", "Marketing"], [[ch, []], [da, []]]]]
        cs = [n for n in w.pre if isinstance(n.data, GPerson) and n.data.name == "Charleen"]
        if len(cs) != 2 or cs[0].data is not cs[1].data or cs[0].data_id != cs[1].data_id:
            rec.fail(f"guide-doc-{k + 1}:clone", [repr(c) for c in cs])
    if got != exp:
        rec.fail(f"guide-doc-{k + 1}:tree", {"got": got, "exp": exp})


# ==================================================================================
# malformed headers
# ==================================================================================
def run_malformed(case, rec):
    doc = case["doc"]
    text = json.dumps(doc)
    rec.evals += 1
    valid = (
        isinstance(doc, dict) and "meta" in doc and "nodes" in doc and isinstance(doc["meta"], dict)
        and "$generator" in doc["meta"] and "nutree/" in str(doc["meta"]["$generator"])
    )
    rec.cls("valid-header" if valid else "invalid-header")
    rec.nt(not valid and isinstance(doc, dict))
    try:
        t = Tree.load(io.StringIO(text))
    except Exception as e:  # noqa: BLE001
        if valid and case.get("loadable"):
            rec.fail("valid-document-rejected", {"text": text[:300], "exc": repr(e)[:200]})
        return
    if not valid:
        rec.fail("malformed-document-accepted", {"text": text[:300], "result": repr(t)})
    elif case.get("loadable"):
        exp = case["expect"]
        w = walk(t)
        got = [n.data for n in w.pre]
        if got != exp:
            rec.fail("valid-document-wrong-tree", {"got": got, "exp": exp})


def run_mutated(case, rec):
    """Byte-level damage to a valid document: load() must either raise or
    return a tree that satisfies the C01-C03 predicates - never a corrupted tree."""
    from vlib.invariants import all_invariants

    prof = serial.Profile("str")
    text = encode_document(prof, case["spec"], {"indent": case.get("indent")})
    for kind, a, b, ch in case["edits"]:
        if not text:
            break
        i = a % len(text)
        j = min(len(text), i + 1 + b % 6)
        if kind == "del":
            text = text[:i] + text[j:]
        elif kind == "dup":
            text = text[:j] + text[i:j] + text[j:]
        elif kind == "rep":
            text = text[:i] + ch + text[i + 1 :]
        else:
            text = text[:i] + ch + text[i:]
    rec.evals += 1
    try:
        t = Tree.load(io.StringIO(text), mapper=serial.str_mapper)
    except Exception:  # noqa: BLE001
        rec.cls("rejected")
        return
    rec.cls("loaded")
    rec.nt(True)
    inv = all_invariants(t)
    if inv:
        rec.fail(f"mutated-document-loaded-into-corrupt-tree:{inv[0][0]}", {"text": text[:400], "detail": inv[0][1]})


# ==================================================================================
@st.composite
def writer_cases(draw, tier):
    profile = draw(st.sampled_from(serial.PROFILES))
    case = {"profile": profile, "spec": draw(serial.tree_spec(profile)), "config": draw(serial.config(profile))}
    if draw(st.sampled_from([0, 0, 1])):
        # the clone that was registered last is moved in front of an earlier occurrence (three or more occurrences)
        case["late_move"] = draw(st.integers(0, 3))
        if profile in ("str", "obj", "obj_pop", "obj_fwd", "obj_falsy", "derived", "dictwrap"):
            # directed: one label below three different top-level nodes
            lab = draw(st.sampled_from(["b", "d", "a1"]))
            spec = case["spec"]
            for extra in ("x1", "x2", "x3"):
                if len(spec) < 3:
                    spec.append([{"x1": "c", "x2": "e", "x3": "a"}[extra], []])
            for top in spec[:3]:
                if top[0] != lab and all(ch[0] != lab for ch in top[1]):
                    top[1].append([lab, []])
            seen = set()
            case["spec"] = [t for t in spec if not (t[0] in seen or seen.add(t[0]))]
            gen.fix_sibling_ids(case["spec"])
    return case


READER_PROFILES = ["str", "obj", "obj_pop", "typed_str", "typed_obj", "typed_obj_pop", "fs", "fs_plain"]


@st.composite
def reader_cases(draw, tier):
    profile = draw(st.sampled_from(READER_PROFILES))
    p = serial.Profile(profile)
    spec = draw(serial.tree_spec(profile))
    opt = {
        "generator": draw(st.sampled_from(["nutree/0.5.1", "nutree/0.7.0", "nutree/0.9.1-a1", "other-tool (compatible with nutree/1.0)"])),
        "indent": draw(st.sampled_from([None, 0, 2, 4])),
        "key_order": draw(st.integers(0, 2)),
        "refs": draw(st.sampled_from([True, True, False])),
        "ascii": draw(st.booleans()),
        "nodes_first": draw(st.booleans()),
    }
    if profile in ("str",) and draw(st.booleans()):
        opt["dict_for_plain_str"] = True
    if draw(st.booleans()):
        keys = draw(st.lists(st.sampled_from(p.possible_keys()), min_size=1, max_size=4, unique=True))
        shorts = draw(st.permutations(serial.SHORT))
        opt["key_map"] = {k: shorts[i] for i, k in enumerate(keys)}
    if draw(st.booleans()):
        vm = {}
        if p.typed and draw(st.booleans()):
            vm["kind"] = draw(st.permutations(["child", "x", "y", "z"]))
        if profile in ("obj", "obj_pop", "typed_obj", "typed_obj_pop") and draw(st.booleans()):
            vm["type"] = draw(st.permutations(["dept", "person"]))
        if vm:
            opt["value_map"] = {k: list(v) for k, v in vm.items()}
    if draw(st.booleans()):
        opt["meta"] = draw(st.sampled_from([{"foo": "bar"}, {"ünï": "cödé", "n": 1}]))
    if draw(st.sampled_from([0, 0, 1])):
        opt["preload"] = True
    if draw(st.sampled_from([0, 1])):
        opt["container"] = draw(st.sampled_from(["file", "zip:tree.nutree.json", "zip:data.json", "zip:export", "zip:a/b.json"]))
        opt["file_name"] = draw(st.sampled_from(["tree.nutree", "renamed.bin", "x.json", "noext"]))
        opt["as_path"] = draw(st.booleans())
    return {"profile": profile, "spec": spec, "opt": opt}


def guide_cases(tier):
    for k in range(4):
        yield {"doc": k}


JSONV = st.recursive(
    st.one_of(st.none(), st.booleans(), st.integers(-5, 5), st.text("ab/$", max_size=4)),
    lambda c: st.one_of(st.lists(c, max_size=3), st.dictionaries(st.sampled_from(["meta", "nodes", "$generator", "x"]), c, max_size=3)),
    max_leaves=8,
)


@st.composite
def malformed_cases(draw, tier):
    mode = draw(st.sampled_from(["random", "missing", "missing", "foreign", "valid", "valid-empty"]))
    good_nodes = [[0, "A"], [1, "a1"], [0, "B"]]
    if mode == "random":
        return {"doc": draw(JSONV)}
    if mode == "missing":
        doc = {"meta": {"$generator": "nutree/0.9", "$format_version": "1.0"}, "nodes": good_nodes}
        which = draw(st.sampled_from(["meta", "nodes", "$generator", "meta-renamed", "nodes-renamed"]))
        if which == "meta":
            del doc["meta"]
        elif which == "nodes":
            del doc["nodes"]
        elif which == "$generator":
            del doc["meta"]["$generator"]
        elif which == "meta-renamed":
            doc["header"] = doc.pop("meta")
        else:
            doc["node_list"] = doc.pop("nodes")
        return {"doc": doc}
    if mode == "foreign":
        gen_ = draw(st.sampled_from(["othertool/1.0", "", "nutree", "NUTREE/1.0", 17, None, ["nutree/1.0"][:0]]))
        return {"doc": {"meta": {"$generator": gen_, "$format_version": "1.0"}, "nodes": good_nodes}}
    if mode == "valid-empty":
        return {"doc": {"meta": {"$generator": "nutree/0.9.1", "$format_version": "1.0"}, "nodes": []}, "loadable": True, "expect": []}
    return {"doc": {"meta": {"$generator": draw(st.sampled_from(["nutree/0.5.1", "nutree/1.2.3"])), "$format_version": "1.0"}, "nodes": good_nodes},
            "loadable": True, "expect": ["A", "a1", "B"]}


@st.composite
def mutated_cases(draw, tier):
    spec = draw(serial.tree_spec("str", max_nodes=8))
    edit = st.tuples(st.sampled_from(["del", "dup", "rep", "ins"]), st.integers(0, 2000), st.integers(0, 20),
                     st.sampled_from(list('0123456789[]{},:"-ax \\')))
    return {"spec": spec, "indent": draw(st.sampled_from([None, 1])), "edits": [list(e) for e in draw(st.lists(edit, min_size=1, max_size=4))]}


def run_mixed(case, rec):
    """Documents in the mixed layout of the user guide: plain-string entries next to object entries (dicts that the
    caller's mapper turns into objects), optionally shortened by header maps; loaded by Tree and by TypedTree with
    the same mapper.  The mapper is only asked for the object entries."""
    spec = case["spec"]
    km = {"type": "t", "name": "n", "age": "a", "data_id": "i"} if case.get("key_map") else {}
    vm = {"type": ["person", "dept"]} if case.get("value_map") else {}
    nodes, expect = [], []

    def enc(items, pidx, depth):
        for label, children in items:
            idx = len(nodes) + 1
            if label in serial.PERSON_LABELS:
                entry = {"type": "person", "name": label, "age": 30 + len(label), "data_id": "p-" + label}
                if vm:
                    entry["type"] = vm["type"].index(entry["type"])
                entry = {km.get(k, k): v for k, v in entry.items()}
                expect.append((depth, "person", label))
            else:
                entry = label
                expect.append((depth, "str", label))
            nodes.append([pidx, entry])
            enc(children, idx, depth + 1)

    enc(spec, 0, 1)
    meta = {"$generator": "nutree/0.9.1", "$format_version": "1.0"}
    if km:
        meta["$key_map"] = km
    if vm:
        meta["$value_map"] = vm
    text = json.dumps({"meta": meta, "nodes": nodes})
    asked = []

    def mapper(parent, data):
        asked.append(dict(data))
        return serial.Person(data["name"], age=data["age"], guid=data["data_id"])

    rec.nt(any(e[1] == "person" for e in expect) and any(e[1] == "str" for e in expect))
    for cls in (Tree, TypedTree):
        del asked[:]
        rec.evals += 1
        try:
            t = cls.load(io.StringIO(text), mapper=mapper)
        except Exception as e:  # noqa: BLE001
            rec.fail(f"mixed:{cls.__name__}:load-raises:{type(e).__name__}", {"exc": repr(e)[:200], "text": text[:400]})
            continue
        w = walk(t)
        got = [(w.depth[id(n)], "person" if isinstance(n.data, serial.Person) else "str", n.data.name if isinstance(n.data, serial.Person) else n.data) for n in w.pre]
        if got != expect:
            rec.fail(f"mixed:{cls.__name__}:tree", {"got": got[:8], "exp": expect[:8]})
        elif any("name" not in a for a in asked):
            rec.fail(f"mixed:{cls.__name__}:mapper-asked-for-a-plain-string-entry", asked[:3])
        elif cls is TypedTree and any(n.kind != TypedTree.DEFAULT_CHILD_TYPE for n in w.pre):
            rec.fail("mixed:TypedTree:kind", [n.kind for n in w.pre][:6])


@st.composite
def mixed_cases(draw, tier):
    def plain(nodes):
        return [[n[0], plain(n[1])] for n in nodes]

    spec = plain(draw(gen.forest_specs(max_nodes=10, max_depth=4, max_width=4, min_nodes=2, unique=False, alphabet=["a", "b", "c", "d", "e", "a1", "ä"])))
    return {"spec": spec, "key_map": draw(st.booleans()), "value_map": draw(st.booleans())}


# (what round 8 added to the case domain; part of the evidence text)
RULE_ROUND8 = ' value_map lists padded to 10 / 100 / 1000 entries (indexes of 2-4 digits); string data also as instances of a str subclass with own __str__ / __format__. Part c-locale: reader, writer and mixed-docs once more in a child interpreter with LC_ALL=C, UTF-8 mode and locale coercion off (plain files opened without an explicit encoding are ASCII there).'
RULE = RULE + RULE_ROUND8

RULE_ROUND9 = ' A third of the writer cases move the clone that was registered last in front of an earlier occurrence (three occurrences directed); reader / writer profile typed_obj_pop.'
RULE = RULE + RULE_ROUND9

PARTS = [
    Part("mutated-documents", run_mutated, strategy=lambda tier: mutated_cases(tier), n={"quick": 500, "thorough": 120000}),
    Part("writer", run_writer, strategy=lambda tier: writer_cases(tier), n={"quick": 500, "thorough": 120000}),
    Part("reader", run_reader, strategy=lambda tier: reader_cases(tier), n={"quick": 500, "thorough": 120000}),
    Part("guide-docs", run_guide, enum=guide_cases),
    Part("mixed-docs", run_mixed, strategy=lambda tier: mixed_cases(tier), n={"quick": 300, "thorough": 20000}),
    Part("malformed", run_malformed, strategy=lambda tier: malformed_cases(tier), n={"quick": 300, "thorough": 10000}),
    nested_part("C12", ["reader", "writer", "mixed-docs"], {"LC_ALL": "C", "LANG": "C", "PYTHONUTF8": "0", "PYTHONCOERCECLOCALE": "0", "PYTHONIOENCODING": "utf8"}, "c-locale", "text files opened without an explicit encoding are read and written as ASCII"),
]
