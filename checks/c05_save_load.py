"""C05 - save() then load() reproduces the tree under every storage option (DESIGN section 3, C05)."""

from __future__ import annotations

import os
import tempfile

from hypothesis import strategies as st

from vlib import core, gen, serial
from vlib.core import Part, nested_part
from vlib.observe import Uids, snapshot, walk

ID = "C05"
LEVEL = "exploration"
TECHNIQUE = 'property-based round trip + metamorphic relation (options must not change the loaded tree)'
LEVEL_TEXT = 'exploration: generated trees x 12 profiles x 3-6 storage configurations each; round trip equality, second generation, and option-independence of the loaded observation'
RULE = (
    "case = (profile in {plain str, objects + callback mappers, DictWrapper + its mappers (plain and typed tree), derived class with class-"
    "level maps/mappers, TypedTree str / objects / derived, FileSystemTree}, tree spec with clones at any relative "
    "position / explicit ids / kinds / unicode, 3-6 storage configurations: key_map in {default, off, custom injective "
    "dict}, value_map in {default, off, custom dict listing all values}, compression in {False, True, STORED, DEFLATED, "
    "BZIP2, LZMA}, target in {str path, Path (file names ending in .nutree, .json, .JSON, .zip or nothing), open UTF-8 text file, open ASCII-only text file, StringIO}, user meta, "
    "optionally an earlier save() of the same tree that was handed the same meta dict object with other maps; labels "
    "include quotes, backslash, newline, blanks, the empty string and a lone surrogate). Oracle: loaded tree has the "
    "loading class, same shape/order, data equal by value, kinds, clone partition, value-derived data_ids, file_meta "
    "carries header + user entries; files of plain string trees also load into TypedTree (default kind) and files of typed string trees into Tree; metamorphic: all configurations load to the identical observation; the source is "
    "unchanged. Non-trivial: >= 3 nodes and >= 1 clone group; distinct = distinct case."
)
ASSUMPTIONS = [
    "data_ids are compared only when value-derived (explicit, callback guid, hash of str); DictWrapper / FileSystemEntry ids are id()-based and only the clone partition is compared",
    "string trees with explicit data_ids are loaded with the one-line mapper `lambda parent, data: data['str']` (Tree.deserialize_mapper is documented to raise)",
    "custom key_maps are injective and their short keys are disjoint from all long keys; custom value_maps list every occurring value",
]


def run(case, rec):
    prof = serial.Profile(case["profile"])
    tree = prof.build(case["spec"], late_move=case.get("late_move"))
    src_view = prof.view(tree)
    u = Uids()
    before = snapshot(tree, u, label=lambda n: repr(n.data))
    rec.nt(src_view["count"] >= 3 and src_view["unique"] < src_view["count"])
    rec.cls(f"profile={prof.name}")
    if _clone_below_sibling(case["spec"]):
        rec.cls("clone-below-sibling-of-first-occurrence")
    if prof.typed and _differing_kind_clone(case["spec"]):
        rec.cls("clone-of-differing-kind")
    if prof.name == "typed_dictwrap" and rec.known("D31"):
        # defect model of known finding D31: DictWrapper.serialize_mapper replaces the entry the writer prepared,
        # so every kind is lost (the loaded nodes get the default kind); everything else must still hold
        def dekind(v):
            return [[x[0], x[1], "child", dekind(x[3])] for x in v]

        if dekind(src_view["tree"]) != src_view["tree"]:
            rec.excl("D31:kinds-lost-by-DictWrapper.serialize_mapper")
            src_view = dict(src_view, tree=dekind(src_view["tree"]))
    first = None
    with tempfile.TemporaryDirectory(prefix="verif_c05_") as tmp:
        for i, cfg in enumerate(case["configs"]):
            rec.cls(f"compression={cfg.get('compression', False)!r}")
            rec.cls(f"target={cfg.get('target', 'str')}")
            rec.cls("key_map=" + ("custom" if isinstance(cfg.get("key_map", True), dict) else str(cfg.get("key_map", True))))
            rec.cls("value_map=" + ("custom" if isinstance(cfg.get("value_map", True), list) else str(cfg.get("value_map", True))))
            tag = _cfg_tag(cfg)
            try:
                src = serial.save_tree(tree, prof, cfg, tmp, i)
            except Exception as e:  # noqa: BLE001
                rec.fail(f"save-raises:{type(e).__name__}:{tag}", {"cfg": cfg, "exc": repr(e)[:300]})
                continue
            rec.evals += 1
            if snapshot(tree, u, label=lambda n: repr(n.data)) != before:
                rec.fail("save-modified-source", cfg)
                return
            meta = {}
            try:
                loaded = serial.load_tree(prof, src, tree, cfg, meta)
            except Exception as e:  # noqa: BLE001
                rec.fail(f"load-raises:{type(e).__name__}", {"cfg": cfg, "exc": repr(e)[:300]})
                continue
            if type(loaded) is not prof.cls():
                rec.fail("loaded-class", [type(loaded).__name__, prof.cls().__name__])
                continue
            v = prof.view(loaded)
            if v["tree"] != src_view["tree"]:
                what = _first_difference(src_view["tree"], v["tree"])
                rec.fail(f"roundtrip:{what}", {"cfg": cfg, "src": src_view["tree"], "loaded": v["tree"]})
                continue
            if v["partition"] != src_view["partition"] or v["count"] != src_view["count"] or v["unique"] != src_view["unique"]:
                rec.fail("roundtrip:clone-partition", {"cfg": cfg, "src": src_view["partition"], "loaded": v["partition"]})
                continue
            # file meta
            if not str(meta.get("$generator", "")).startswith("nutree/") or meta.get("$format_version") != "1.0":
                rec.fail("file_meta:header", meta)
            for k, val in (cfg.get("meta") or {}).items():
                if meta.get(k) != val:
                    rec.fail("file_meta:user-entry", [k, meta.get(k), val])
            if not cfg.get("preload"):
                # "hands back the stored file metadata": every entry of the header that is in the file
                stored = serial.read_document(src)["meta"]
                if meta != stored:
                    diff = sorted(set(stored) ^ set(meta)) or sorted(k for k in stored if stored[k] != meta.get(k))
                    rec.fail("file_meta:differs-from-the-stored-header", {"keys": diff, "cfg": cfg})
            if first is None:
                first = v
                # second generation: saving the loaded tree and loading it again changes nothing
                try:
                    src2 = serial.save_tree(loaded, prof, cfg, tmp, f"{i}b")
                    loaded2 = serial.load_tree(prof, src2, loaded, cfg, {})
                    rec.evals += 1
                    if prof.view(loaded2) != v:
                        rec.fail("second-generation:differs", {"cfg": cfg})
                except Exception as e:  # noqa: BLE001
                    rec.fail(f"second-generation:raises:{type(e).__name__}", {"cfg": cfg, "exc": repr(e)[:200]})
            elif v != first:
                rec.fail("metamorphic:options-change-result", cfg)
            # "a tree of the loading class": a file written by a plain string tree loads into a TypedTree (no mapper
            # needed for string entries; every node gets the default kind), and vice versa with the one-line mapper
            if prof.name in ("str", "typed_str") and not cfg.get("preload"):
                other = serial.Profile("typed_str" if prof.name == "str" else "str")
                rec.evals += 1
                try:
                    kw2 = {}
                    if prof.name == "typed_str":
                        kw2["mapper"] = serial.str_mapper
                    kind_, val_, _kw = src
                    if kind_ == "path":
                        lo = other.cls().load(val_, **kw2)
                    elif kind_ in ("file", "file-ascii"):
                        with open(val_, "r", encoding="utf8" if kind_ == "file" else "ascii") as fp:
                            lo = other.cls().load(fp, **kw2)
                    else:
                        import io as _io

                        lo = other.cls().load(_io.StringIO(val_), **kw2)
                except Exception as e:  # noqa: BLE001
                    rec.fail(f"cross-class-load:raises:{type(e).__name__}:{prof.name}->{other.name}", {"cfg": cfg, "exc": repr(e)[:200]})
                    continue
                if type(lo) is not other.cls():
                    rec.fail("cross-class-load:class", type(lo).__name__)
                    continue
                vo = other.view(lo)

                def rekind(vw, k):
                    return [[x[0], x[1], k, rekind(x[3], k)] for x in vw]

                want = rekind(src_view["tree"], "child" if other.typed else None)
                if vo["tree"] != want or vo["partition"] != src_view["partition"]:
                    rec.fail(f"cross-class-load:{prof.name}->{other.name}", {"cfg": cfg, "src": src_view["tree"], "loaded": vo["tree"]})


def _cfg_tag(cfg):
    t = cfg.get("target", "str")
    c = cfg.get("compression", False)
    return f"target={'path' if t in ('str', 'path') else 'stream'},compression={'on' if c is not False or cfg.get('pass_compression') else 'off'}"


def _first_difference(a, b):
    """classify the first difference between two tree views."""
    if len(a) != len(b):
        return "shape"
    for x, y in zip(a, b):
        if x[0] != y[0]:
            return "data"
        if x[1] != y[1]:
            return "data_id"
        if x[2] != y[2]:
            return "kind"
        d = _first_difference(x[3], y[3])
        if d:
            return d
    return ""


def _clone_below_sibling(spec):
    """some node N has a sibling S (any order) such that N's label occurs as a child of S."""

    def rec_(nodes):
        for n in nodes:
            for s in nodes:
                if s is not n and any(c[0] == n[0] for c in s[1]):
                    return True
            if rec_(n[1]):
                return True
        return False

    return rec_(spec)


def _differing_kind_clone(spec):
    kinds = {}

    def rec_(nodes):
        for n in nodes:
            o = n[2] if len(n) > 2 and n[2] else {}
            kinds.setdefault((n[0], o.get("id")), set()).add(o.get("kind") or "child")
            rec_(n[1])

    rec_(spec)
    return any(len(v) > 1 for v in kinds.values())


@st.composite
def hyp_cases(draw, tier):
    profile = draw(st.sampled_from(serial.C05_PROFILES))
    spec = draw(serial.tree_spec(profile))
    if draw(st.sampled_from([0, 0, 1])):
        # directed: make a clone below a sibling of its first occurrence
        if len(spec) >= 2:
            a, b = spec[0], spec[1]
            if all(c[0] != a[0] for c in b[1]) and not (profile in ("fs", "fs_plain") and b[0] in serial.PERSON_LABELS):
                # (a node_id is unique in a tree: the clone does not inherit an explicit one)
                b[1].insert(0, [a[0], []] + ([{k: v for k, v in a[2].items() if k != "nid"}] if len(a) > 2 and a[2] else []))
                gen.fix_sibling_ids(spec)
    configs = draw(st.lists(serial.config(profile), min_size=3, max_size=6))
    return {"profile": profile, "spec": spec, "configs": configs}


# (what round 8 added to the case domain; part of the evidence text)
RULE_ROUND8 = ' String profiles hold instances of a str subclass whose str() / format() texts differ from the value for a third of the labels; target stringio-offset (the stream stands behind an application header when save() and load() are called); value_map lists padded to 10 / 100 / 1000 entries; big trees (> 250 nodes) one case in 20. Part c-locale: the roundtrip part once more in a child interpreter with LC_ALL=C, UTF-8 mode and locale coercion off.'
RULE = RULE + RULE_ROUND8

def run_cross_process(case, rec):
    """A file is written by ANOTHER interpreter process (another str hash seed) and read here: value objects without
    an explicit data_id get the data_id this process calculates for them - lookups by data and clone groups work."""
    import json as _json
    import subprocess
    import sys
    import tempfile

    spec = case["spec"]
    rec.evals += 1
    with tempfile.TemporaryDirectory(prefix="verif_c05x_") as tmp:
        path = os.path.join(tmp, "parts.nutree")
        code = ("import sys, json; sys.path.insert(0, sys.argv[3]); from vlib import serial; "
                "t = serial.build_parts(json.loads(sys.argv[1])); t.save(sys.argv[2], mapper=serial.part_serialize_mapper)")
        env = dict(os.environ, PYTHONHASHSEED=str(case["seed"]))
        p = subprocess.run([sys.executable, "-c", code, _json.dumps(spec), path, os.path.dirname(os.path.dirname(os.path.abspath(__file__)))],
                           env=env, capture_output=True, text=True, timeout=120)
        if p.returncode != 0:
            if "nutree" in p.stderr and "vlib" not in p.stderr.split("Traceback")[-1].split("nutree")[0][-200:]:
                rec.fail("cross-process:writer-raises", p.stderr[-300:])
                return
            raise core.HarnessError("writer process failed: " + p.stderr[-400:])
        try:
            loaded = serial.Tree.load(path, mapper=serial.part_deserialize_mapper)
        except Exception as e:  # noqa: BLE001
            rec.fail(f"cross-process:load-raises:{type(e).__name__}", repr(e)[:200])
            return
    w = walk(loaded)

    def shape_(nodes):
        return [[n.data.name if isinstance(n.data, serial.Part) else repr(n.data), shape_(w.kids[id(n)])] for n in nodes]

    exp = _json.loads(_json.dumps([[n[0], n[1]] for n in spec]))

    def strip(sp):
        return [[n[0], strip(n[1])] for n in sp]

    if shape_(w.kids[id(None)]) != strip(spec):
        rec.fail("cross-process:shape", {"loaded": shape_(w.kids[id(None)]), "spec": strip(spec)})
        return
    labels = {n.data.name for n in w.pre}
    rec.nt(len(labels) < len(w.pre))
    for n in w.pre:
        if n.data_id != hash(n.data):
            rec.fail("cross-process:data_id-is-not-this-process'-hash-of-the-data", {"node": n.data.name, "data_id": n.data_id, "hash": hash(n.data)})
            return
    for lab in sorted(labels):
        found = loaded.find_all(serial.Part(lab))
        want = [n for n in w.pre if n.data.name == lab]
        if sorted(map(id, found)) != sorted(map(id, want)):
            rec.fail("cross-process:lookup-by-data", {"label": lab, "found": len(found), "want": len(want)})
            return
    del exp


@st.composite
def cross_cases(draw, tier):
    spec = draw(gen.forest_specs(max_nodes=10, max_depth=4, max_width=4, min_nodes=2, alphabet=["a", "b", "c", "dd", "ee"], big=False))
    return {"spec": spec, "seed": draw(st.sampled_from([1, 5, 77, 1234]))}


RULE_ROUND9 = " Profile typed_obj_pop (a load mapper that consumes its entry, kind included). Part cross-process: a tree of value objects (frozen dataclass, default data_id) is written by a child interpreter with another PYTHONHASHSEED and loaded here: every node's data_id is this process' hash of its data, lookups by data find all occurrences."
RULE = RULE + RULE_ROUND9

PARTS = [
    Part("roundtrip", run, strategy=lambda tier: hyp_cases(tier), n={"quick": 1000, "thorough": 100000}),
    nested_part("C05", ["roundtrip"], {"LC_ALL": "C", "LANG": "C", "PYTHONUTF8": "0", "PYTHONCOERCECLOCALE": "0", "PYTHONIOENCODING": "utf8"}, "c-locale", "text files opened without an explicit encoding are read and written as ASCII"),
    Part("cross-process", run_cross_process, strategy=lambda tier: cross_cases(tier), n={"quick": 16, "thorough": 400}),
]
